"""Shared harness of the render checks (C13-C15): build reconciliations from the model through the
API (not Newick, so that any character survives in names), compute layouts with the stub measurer."""
import math

from . import adapters as A
from . import stubs
from .refmodel import dtl, ordered
from .refmodel.trees import T
from ete3 import Tree
from superrec2.utils.trees import LowestCommonAncestor
from superrec2.model.reconciliation import (
    ReconciliationInput, ReconciliationOutput, SuperReconciliationInput, SuperReconciliationOutput,
)
from superrec2.render import layout as layout_mod, tikz as tikz_mod
from superrec2.render.model import DrawParams, Orientation, PseudoGene

ORIENT = {"V": Orientation.VERTICAL, "H": Orientation.HORIZONTAL}


def api_tree(t, names, colours=None):
    """build an ete3 tree through the API; -> {model node: ete node}"""
    nodes = {}
    for v in t.order_pre():
        if t.parent[v] is None:
            nodes[v] = Tree(name=names[v])
        else:
            nodes[v] = nodes[t.parent[v]].add_child(name=names[v])
        if colours and v in colours:
            nodes[v].add_feature("color", colours[v])
    return nodes


NAME_SCHEMES = ("plain", "underscore", "backslash")


def names_for(O, S, m, scheme="plain"):
    """leaf names follow <species>_<id>; -> (onames, snames)"""
    if scheme == "plain":
        sn = {v: f"s{v}" for v in range(S.n)}
    elif scheme == "underscore":
        sn = {v: f"sp_{v}_x" for v in range(S.n)}
    elif scheme == "unnamed":
        sn = {v: f"s{v}" for v in range(S.n)}
    elif scheme == "emptyindex":
        # species names with an underscore and a backslash; the first object leaf of each species has an EMPTY index (its
        # name ends with the separating underscore)
        sn = {v: f"sp_{v}\\x" for v in range(S.n)}
    else:
        # backslashes next to digits, letters and - immediately followed by - an underscore
        sn = {v: f"sp\\{v}\\_a\\b" for v in range(S.n)}
    on = {}
    first_in = {}
    for v in range(O.n):
        if not O.children[v]:
            first_in.setdefault(m[v], v)
    for v in range(O.n):
        if scheme == "emptyindex" and not O.children[v]:
            on[v] = f"{sn[m[v]]}_" + ("" if first_in[m[v]] == v else str(v))
        elif O.children[v]:
            # "unnamed": ancestors of the object tree carry no name at all (legal through the API)
            on[v] = "" if scheme == "unnamed" else f"anc{v}"
        elif scheme == "backslash":
            on[v] = f"{sn[m[v]]}_g\\{v}"
        else:
            on[v] = f"{sn[m[v]]}_{v}"
    return on, sn


def build_rec(O, S, leafmap, m, lab=None, ordered_flag=True, scheme="plain", colours=None, reverse_mapping=False):
    """-> (rec, onode, snode, onames, snames); reverse_mapping: the object_species / syntenies dicts list the nodes bottom-up
    (leaves first, as hand-written JSON files do) instead of top-down"""
    on, sn = names_for(O, S, m, scheme)
    onode = api_tree(O, on, colours)
    snode = api_tree(S, sn)
    for v, node in snode.items():
        node.dist = 0.5 + (v % 3)      # branch lengths other than 1: not part of the model, must not influence a drawing
    for v, node in onode.items():
        node.dist = 2.0 + (v % 2)
    los = {onode[v]: snode[s] for v, s in leafmap.items()}
    lca = LowestCommonAncestor(snode[S.root])
    order = sorted(m, reverse=True) if reverse_mapping else list(m)
    mapping = {onode[v]: snode[m[v]] for v in order}
    if lab is None:
        inp = ReconciliationInput(onode[O.root], lca, los)
        rec = ReconciliationOutput(inp, mapping)
    else:
        leafsyn = {onode[v]: list(lab[v]) for v in O.leaves}
        inp = SuperReconciliationInput(onode[O.root], lca, los, leaf_syntenies=leafsyn)
        rec = SuperReconciliationOutput(input=inp, object_species=mapping,
                                        syntenies={onode[v]: list(lab[v]) for v in (sorted(lab, reverse=True) if reverse_mapping else lab)},
                                        ordered=ordered_flag)
    return rec, onode, snode, on, sn


def labellings_for(O, mode):
    """two fixed valid ordered labellings used by the render checks"""
    root = ("g1", "g2", "g3")
    if mode == "same":
        return {v: root for v in range(O.n)}
    if mode == "repeat":
        # a family that occurs twice in the root's order (the renderer does not ask for distinct families): children drop the
        # second copy, so that a child differs from its parent by multiplicity only
        root2 = ("g1", "g2", "g1")
        return {v: (root2 if O.parent[v] is None else ("g1", "g2")) for v in range(O.n)}
    if mode == "gluey":
        # multi-character family names whose lists differ but concatenate to the same text ('a'+'bc' = 'ab'+'c'), on
        # different leaves of one drawing; ancestors hold all four
        full = ("a", "bc", "ab", "c")
        return {v: (full if O.children[v] else (("a", "bc") if v % 2 else ("ab", "c"))) for v in range(O.n)}
    # "losses": each level loses something, leaves alternate
    lab = {}
    for v in O.order_pre():
        p = O.parent[v]
        if p is None:
            lab[v] = root
        elif not O.children[v]:
            par = lab[p]
            lab[v] = par[:-1] if (v % 2 and len(par) > 1) else par
        else:
            par = lab[p]
            lab[v] = par[1:] if (v % 2 == 0 and len(par) > 2) else par
    return lab


def finite(x):
    return isinstance(x, (int, float)) and math.isfinite(x)


def valid_recs(O, S):
    """(leafmap, mapping, events) for every assignment and every valid mapping"""
    import itertools
    for asg in itertools.product(S.leaves, repeat=len(O.leaves)):
        leafmap = dict(zip(O.leaves, asg))
        for m, evs in dtl.valid_mappings(O, S, leafmap):
            yield leafmap, m, evs


def rec_case(osh, ssh, leafmap, m, **extra):
    d = {"object_shape": osh, "species_shape": ssh, "leaf_object_species": sorted(leafmap.items()),
         "mapping": sorted(m.items())}
    d.update(extra)
    return d


def rec_from_case(case):
    from .refmodel.trees import shape_from_json
    O, S = T(shape_from_json(case["object_shape"])), T(shape_from_json(case["species_shape"]))
    leafmap = {int(k): int(v) for k, v in case["leaf_object_species"]}
    m = {int(k): int(v) for k, v in case["mapping"]}
    return O, S, leafmap, m
