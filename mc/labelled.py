"""Shared harness for the labelled (super-reconciliation) solvers: build inputs from the
integer model, run a real solver, translate its results back, evaluate the oracle."""
import itertools
import traceback

from . import adapters as A
from . import spaces
from .refmodel import dtl, ordered, unordered
from .refmodel.trees import T, shape_from_json
from superrec2.compute.super_reconciliation import sreconcile_base_spfs, sreconcile_extended_spfs
from superrec2.compute.unordered_super_reconciliation import usreconcile_base_uspfs, usreconcile_extended_uspfs
from superrec2.compute.reconciliation import reconcile_lca, reconcile_thl
from superrec2.compute.exhaustive import reconcile_exhaustive

SOLVERS = {
    "ext_spfs": (sreconcile_extended_spfs, "ordered", False),
    "base_spfs": (sreconcile_base_spfs, "ordered", True),
    "superdtl": (usreconcile_extended_uspfs, "unordered", False),
    "base_uspfs": (usreconcile_base_uspfs, "unordered", True),
}
PLAIN = {"thl": reconcile_thl, "exh": reconcile_exhaustive}


class Result:
    __slots__ = ("error", "trace", "sols", "raw")

    def __init__(self):
        self.error = None
        self.trace = None
        self.sols = []   # list of (mapping dict, labelling dict, implementation cost)
        self.raw = None


# presentation of an input, varied as a deterministic function of the input (see adapters.dict_order_of): gene families
# spelled with multi-character names one of which is a textual prefix of another, and object ancestors that all carry the
# same label (as when support values are read as names) - neither may influence a result
FAMILY_ALIAS = {"a": "g1", "b": "g10", "c": "g2", "d": "g20", "e": "g3", "f": "g30", "z": "g100"}
# second spelling: names that differ only by leading zeros (equal under a "natural sort" key)
FAMILY_ALIAS_ZEROS = {"a": "cas1", "b": "cas01", "c": "cas001", "d": "cas0001", "e": "cas2", "f": "cas02", "z": "cas00001"}


# third spelling: names whose concatenations collide ("a" + "ba" = "ab" + "a" = "aba")
FAMILY_ALIAS_GLUE = {"a": "a", "b": "ba", "c": "ab", "d": "aba", "e": "b", "f": "bab", "z": "baab"}


def presentation_of(leafmap):
    order = A.dict_order_of(leafmap)
    alias = None
    if order == "mid":
        alias = (FAMILY_ALIAS, FAMILY_ALIAS_ZEROS, FAMILY_ALIAS_GLUE)[sum(leafmap.values()) % 3]
    return {"alias": alias, "same_labels": order == "rev"}


def run_labelled(algo, O, S, leafmap, leafsyn, costs, policy, rootsyn=None, keep_raw=False, session=None):
    fn, model, _ = SOLVERS[algo]
    is_ord = model == "ordered"
    pres = {"alias": False, "same_labels": False}
    if session is not None:
        inp, onode, snode = session.set(leafmap, costs, leafsyn, rootsyn)
    else:
        pres = presentation_of(leafmap)
        ls, rs, onames = leafsyn, rootsyn, None
        if pres["alias"]:
            al = pres["alias"]
            ls = {v: tuple(al[f] for f in x) for v, x in leafsyn.items()}
            rs = None if rootsyn is None else tuple(al[f] for f in rootsyn)
        if pres["same_labels"] and O.is_binary() and S.is_binary():
            onames = {v: ("90" if O.children[v] else f"o{v}") for v in range(O.n)}
        inp, onode, snode = A.build_input(O, S, leafmap, costs, ls, unordered=not is_ord, rootsyn=rs, onames=onames)
        # operation history (about one input in nine, never the "mid" presentation): the OTHER solvers that accept this input
        # object run on it before this one - for an ordered input also the unordered ones, which read the same leaf lists as
        # sets, and the base variant before the extended one - and once more after it; none may leave a trace in the
        # caller's input, and what this solver returned must still cost the same afterwards
        hsum = sum((i + 1) * leafmap[k] for i, k in enumerate(sorted(leafmap)))     # position-weighted: not tied to a shape
        history = (not pres["alias"]) and hsum % 9 == 0 and O.is_binary() and S.is_binary()
        others = [o_ for o_ in (("superdtl", "base_uspfs", "base_spfs", "ext_spfs") if is_ord else ("base_uspfs", "superdtl"))
                  if o_ != algo and not (rs is not None and SOLVERS[o_][1] != "ordered")] if history else []
        before = history and hsum % 18 == 0       # the others run first; otherwise they only run afterwards
        for other in (others if before else []):
            try:
                list(SOLVERS[other][0](inp, A.POLICY["ANY"]))
            except Exception:
                pass        # the other solver's own failures are its own check's business
    r = Result()
    try:
        outs = list(fn(inp, A.POLICY[policy]))
    except Exception as exc:
        r.error = f"{algo}/{policy} raised {type(exc).__name__}: {exc}"
        r.trace = traceback.format_exc(limit=8)
        return r
    if keep_raw:
        r.raw = (inp, onode, snode, outs)
    for out in outs:
        try:
            m = A.mapping_of(out, onode, snode)
            lab = A.labelling_of(out, onode, is_ord)
            if pres["alias"]:
                inv = {v_: k_ for k_, v_ in pres["alias"].items()}
                lab = {k: (tuple(inv[f] for f in x) if is_ord else frozenset(inv[f] for f in x))
                       for k, x in lab.items()}
            c = A.impl_cost(out.cost())
            flag = out.ordered
        except Exception as exc:
            r.error = f"{algo}/{policy} returned a malformed solution: {type(exc).__name__}: {exc}"
            r.trace = traceback.format_exc(limit=8)
            return r
        if flag != is_ord:
            r.error = f"{algo}/{policy} returned a solution with ordered={flag}"
            return r
        r.sols.append((m, lab, c))
    if session is None and others and outs:
        for other in others:
            try:
                list(SOLVERS[other][0](inp, A.POLICY["ALL"]))
            except Exception:
                pass
        try:
            again = [A.impl_cost(out.cost()) for out in outs]
        except Exception as exc:
            r.error = f"{algo}/{policy}: cost() of a returned solution raised {type(exc).__name__}: {exc} after {others} had run on the same input"
            return r
        if again != [c_ for _, _, c_ in r.sols]:
            r.error = (f"{algo}/{policy}: the solutions returned cost {[c_ for _, _, c_ in r.sols][:4]}; after {others} ran on the same "
                       f"input object they cost {again[:4]}")
    return r


def oracle(algo, O, S, leafmap, leafsyn, costs, rootsyn=None, canonical_only=False, brute=False):
    """(minimum, set of optimal keys) for the model the algorithm claims to optimise"""
    _, model, base = SOLVERS[algo]
    fixed = dtl.lca_mapping(O, S, leafmap) if base else None
    if model == "ordered":
        f = ordered.brute if brute else ordered.bellman
        return f(O, S, leafmap, leafsyn, costs, prescribed=rootsyn, fixed_map=fixed)
    f = unordered.brute if brute else unordered.bellman
    return f(O, S, leafmap, leafsyn, costs, fixed_map=fixed, canonical_only=canonical_only)


def sol_key(algo, m, lab):
    if SOLVERS[algo][1] == "ordered":
        return ordered.solution_key(m, lab)
    return unordered.solution_key(m, lab)


def model_cost(algo, O, S, leafmap, leafsyn, costs, m, lab):
    mod = ordered if SOLVERS[algo][1] == "ordered" else unordered
    rl = mod.costs_of(O, S, leafmap, leafsyn, costs, m, lab)
    return None if rl is None else rl[0] + rl[1]


def validity(algo, O, S, leafmap, leafsyn, m, lab, rootsyn=None):
    if SOLVERS[algo][1] == "ordered":
        return ordered.is_valid_solution(O, S, leafmap, leafsyn, m, lab, prescribed=rootsyn)
    return unordered.is_valid_solution(O, S, leafmap, leafsyn, m, lab)


# ------------------------------------------------------------------ slices
_SYN_CACHE = {}


def syn_tuples(n, menu):
    key = (n, tuple(menu))
    if key not in _SYN_CACHE:
        _SYN_CACHE[key] = list(spaces.synteny_tuples(n, menu))
    return _SYN_CACHE[key]


def labelled_inputs(O, S, menu, part=None):
    """every leaf assignment x every tuple of leaf syntenies (up to family renaming);
    part=(i, k) keeps the inputs whose enumeration index is congruent to i modulo k"""
    n = len(O.leaves)
    tuples = syn_tuples(n, menu)
    idx = 0
    for leafmap in spaces.assignments(O, S):
        for syns in tuples:
            if part is None or idx % part[1] == part[0]:
                yield leafmap, dict(zip(O.leaves, syns))
            idx += 1


def count_inputs(osh, ssh, menu):
    from .refmodel.trees import shape_leaves
    n = shape_leaves(osh)
    return spaces.count_assignments(osh, ssh) * len(syn_tuples(n, menu))


def split_plan(name, pairs, menu, per_shard, extra):
    """shards for a labelled slice: one per (shape pair, part)"""
    out = []
    for osh, ssh in pairs:
        total = count_inputs(osh, ssh, menu)
        k = max(1, -(-total // per_shard))
        for i in range(k):
            d = {"slice": name, "osh": osh, "ssh": ssh, "menu": menu, "part": (i, k)}
            d.update(extra)
            out.append(d)
    return out


def case_json(osh, ssh, leafmap, leafsyn, costs=None, algo=None, policy=None, rootsyn=None):
    c = {"object_shape": osh, "species_shape": ssh,
         "leaf_object_species": [[k, v] for k, v in sorted(leafmap.items())],
         "leaf_syntenies": [[k, list(v)] for k, v in sorted(leafsyn.items())]}
    if costs is not None:
        c["costs"] = A.costs_to_json(costs)
    if algo:
        c["algorithm"] = algo
    if policy:
        c["policy"] = policy
    if rootsyn is not None:
        c["root_synteny"] = list(rootsyn)
    return c


def case_from_json(case):
    osh = shape_from_json(case["object_shape"])
    ssh = shape_from_json(case["species_shape"])
    O, S = T(osh), T(ssh)
    leafmap = {int(k): int(x) for k, x in case["leaf_object_species"]}
    leafsyn = {int(k): tuple(x) for k, x in case.get("leaf_syntenies", [])}
    costs = A.costs_from_json(case["costs"]) if "costs" in case else None
    rootsyn = tuple(case["root_synteny"]) if case.get("root_synteny") is not None else None
    return osh, ssh, O, S, leafmap, leafsyn, costs, rootsyn


def fmt_sol(m, lab):
    return "map=" + str(sorted(m.items(), key=str)) + " syn=" + str(sorted(((k, "".join(sorted(v) if isinstance(v, frozenset) else v)) for k, v in lab.items()), key=str))
