"""C01 - thl and exh return a minimum-cost reconciliation; generate_all is complete."""
import traceback

from .. import adapters as A
from ..refmodel.trees import T, shape_str, shape_from_json
from ..refmodel import dtl
from .. import spaces
from superrec2.compute.reconciliation import reconcile_thl
from superrec2.compute.exhaustive import reconcile_exhaustive, generate_all

LEVEL = "exploration"
RULE = (
    "every pair of plane binary shapes within the slice bounds x every assignment of object leaves to species "
    "leaves x every cost vector of the slice's (plain-coherent) menu x {thl, exh} x {ALL, ANY}, plus generate_all "
    "under five cost vectors (default, hgt=inf, zeros, incoherent) per input; oracle = brute force over all |S|^internal mappings (refmodel.dtl). An (input, cost vector) "
    "case is non-trivial when the optimum uses a transfer, or some species leaf hosts no object, or there are >= 2 "
    "optimal mappings, or the minimum differs from the cost of the LCA mapping; cases are distinct by construction "
    "(the enumeration never repeats an (input, vector) pair)."
)
ASSUMPTIONS = [
    "reference model refmodel/dtl.py (documented event model), cross-validated brute force <-> Bellman in selftest",
    "ete3 tree container; CPython",
    "cost vectors restricted to spe <= dup + 2*floss (F-COHERENCE, DESIGN 9.1)",
]
BUDGET = {"quick": 600, "thorough": 3000}
ALGOS = {"thl": reconcile_thl, "exh": reconcile_exhaustive}


def slices(tier):
    core = spaces.plain_core()
    if tier == "quick":
        # two extra vectors with spe > 0 competing against dup / hgt (the speciation cost must be charged)
        # and two with a transfer far more expensive than a duplication plus the losses of one lifted node, where a
        # transfer only pays off by sparing several ancestors at once
        return [("P4x3/core+4", spaces.shape_pairs(4, 3), core + [(2, 1, 2, 1, 1), (1, 1, 2, 0, 1), (0, 1, 6, 1, 1), (0, 1, 4, 1, 1),
                         (0, 10 ** 10, 10 ** 10 + 3, 1, 1)]),      # huge magnitudes, alternatives differing by 3 units
                ("P4x4cat/bighgt", [p for p in spaces.shape_pairs(4, 4, min_obj=4, min_sp=4)],
                 [(0, 1, 8, 1, 1), (0, 2, 8, 1, 1), (0, 1, 1, 1, 1)]),   # + default costs: transfers nested under both root children
                # deep species trees, a transfer twice as dear as a duplication or a loss: a speciation two levels above a
                # placement that only a transfer makes cheap
                ("P3x6/bighgt2", spaces.shape_pairs(3, 6, min_obj=3, min_sp=6), [(0, 1, 2, 1, 1)]),
                # 5 object leaves: a transferred child that is itself an internal node with leaves in several sister clades
                ("P5x3/bighgt2", spaces.shape_pairs(5, 3, min_obj=5, min_sp=3), [(0, 1, 2, 1, 1)])]
    six = [(0, 1, 1, 1, 1), (1, 1, 1, 1, 1), (1, 3, 5, 2, 1), (0, 1, 1, 0, 1), (0, 1, dtl.INF, 1, 1), (2, 1, 0, 1, 1), (0, 1, 2, 1, 1)]
    p54 = [p for p in spaces.shape_pairs(5, 4)]
    p36 = [p for p in spaces.shape_pairs(3, 6, min_sp=5)]
    return [
        ("P4x4/grid", spaces.shape_pairs(4, 4), spaces.cv_grid_plain()),
        ("P5x4/six", [p for p in p54 if spaces.shape_leaves(p[0]) == 5], six),
        ("P3x6/core", p36, core),
        ("P4x4/bighgt", spaces.shape_pairs(4, 4), [(0, 1, 8, 1, 1), (0, 2, 8, 1, 1), (0, 1, 6, 1, 1), (1, 1, 9, 1, 1), (0, 1, 10, 2, 1)]),
        ("P5x4cat/bighgt", [p for p in p54 if spaces.shape_leaves(p[0]) == 5 and spaces.shape_leaves(p[1]) == 4], [(0, 1, 8, 1, 1)]),
    ]


def plan(tier, seed):
    out = []
    for name, pairs, menu in slices(tier):
        for osh, ssh in pairs:
            out.append({"slice": name, "osh": osh, "ssh": ssh, "menu": menu, "genall": "bighgt" not in name})
    # operation histories: one ReconciliationInput per shape pair (ancestors named / unnamed) whose leaf assignment and
    # cost dicts are updated in place through every assignment x cost vector; each call checked against the oracle
    core = spaces.plain_core()
    pairs = spaces.shape_pairs(3, 4, min_obj=2) if tier == "quick" else spaces.shape_pairs(4, 4, min_obj=2)
    for k, (osh, ssh) in enumerate(pairs):
        out.append({"slice": "session:" + ("P3x4" if tier == "quick" else "P4x4"), "osh": osh, "ssh": ssh, "menu": core,
                    "genall": True, "session": True, "unnamed": bool(k % 2)})
    # the species tree rebuilt from the node objects of an earlier species tree (detached and handed out in the opposite
    # order), with a fresh LowestCommonAncestor: whatever an earlier structure remembered about those objects is stale
    for k, (osh, ssh) in enumerate(spaces.shape_pairs(3, 4, min_obj=2)):
        out.append({"slice": "species-retopology:P3x4", "osh": osh, "ssh": ssh, "menu": core[:2], "genall": True,
                    "session": True, "species_retopology": True, "unnamed": bool(k % 2)})
    return out


def check_case(O, S, leafmap, costs, algo, policy, valid_summary=None, session=None):
    """Run one solver on freshly built objects (or on the shared objects of a session); return None or (subcheck, detail, observed)."""
    inp, onode, snode = session.set(leafmap, costs) if session is not None else A.build_input(O, S, leafmap, costs)
    try:
        res = ALGOS[algo](inp, A.POLICY[policy])
        res = list(res)
    except Exception as exc:
        return ("exception", f"{algo}/{policy} raised {type(exc).__name__}: {exc}", traceback.format_exc(limit=6))
    best, sols, _ = dtl.brute(O, S, leafmap, costs[:4]) if valid_summary is None else valid_summary
    if not res:
        return ("empty", f"{algo}/{policy} returned nothing; model minimum is {best}", None)
    for out in res:
        try:
            m = A.mapping_of(out, onode, snode)
        except Exception as exc:
            return ("malformed", f"{type(exc).__name__}: {exc}", None)
        if set(m.keys()) != set(range(O.n)) or any(v is None for v in m.values()):
            return ("not_total", f"{algo}/{policy} mapping is not total: {sorted(m.items(), key=str)}", None)
        evs = dtl.events_of(O, S, leafmap, m)
        if evs is None:
            return ("invalid", f"{algo}/{policy} returned an invalid mapping {sorted(m.items())}", None)
        c = dtl.cost_of_events(evs, costs[:4])
        if c != best:
            return ("suboptimal", f"{algo}/{policy} returned cost {c} (model recount), model minimum {best}: "
                    f"{sorted(m.items())}", None)
        try:
            ic = A.impl_cost(out.cost())
        except Exception as exc:
            return ("exception", f"cost() raised {type(exc).__name__}: {exc}", None)
        if ic != c:
            return ("cost_mismatch", f"implementation cost {ic} != model recount {c}", None)
    return None


# validity does not depend on prices: the enumerator is run under every vector of this menu (no coherence filter is
# needed, nothing is optimised) and must yield the same complete set each time
GENALL_MENU = [(0, 1, 1, 1, 1), (0, 1, dtl.INF, 1, 1), (0, 0, 0, 0, 1), (3, 0, 2, 1, 1), (1, 2, 0, 0, 1)]


def check_generate_all(O, S, leafmap, valid_keys, costs=(0, 1, 1, 1, 1), session=None):
    inp, onode, snode = session.set(leafmap, costs) if session is not None else A.build_input(O, S, leafmap, costs)
    try:
        outs = list(generate_all(inp))
    except Exception as exc:
        return ("exception", f"generate_all raised {type(exc).__name__}: {exc}")
    keys = []
    for out in outs:
        m = A.mapping_of(out, onode, snode)
        keys.append(tuple(sorted(m.items(), key=str)))
    if len(keys) != len(set(keys)):
        return ("genall_duplicates", f"generate_all yields {len(keys)} outputs, {len(set(keys))} distinct")
    if set(keys) != valid_keys:
        extra = sorted(set(keys) - valid_keys)[:2]
        missing = sorted(valid_keys - set(keys))[:2]
        return ("genall_set", f"generate_all differs from the model's valid set: extra {extra} missing {missing}")
    return None


def case_json(osh, ssh, leafmap, costs=None, algo=None, policy=None):
    c = {"object_shape": osh, "species_shape": ssh,
         "leaf_object_species": [[k, v] for k, v in sorted(leafmap.items())]}
    if costs is not None:
        c["costs"] = A.costs_to_json(costs)
    if algo:
        c["algorithm"] = algo
        c["policy"] = policy
    return c


def run_shard(shard, tier, seed):
    osh, ssh, menu = shard["osh"], shard["ssh"], shard["menu"]
    O, S = T(osh), T(ssh)
    n_eval = 0
    n_inputs = 0
    nt = 0
    viols = []
    vtotal = 0
    samples = []
    counters = {"solver_runs": 0, "valid_mappings_enumerated": 0}
    sess = A.Session(O, S, unnamed=shard.get("unnamed", False)) if shard.get("session") else None
    pre = "session_" if sess else ""
    if shard.get("species_retopology"):
        sess.rebuild_species(S)
        sess.rebuild_species(S)   # twice: the opposite order of the opposite order, on objects indexed twice before
        sess.rebuild_species(S)

    def sjson(c):
        if sess is not None:
            c["session_shard"] = A.pack(shard)
        return c

    for leafmap in spaces.assignments(O, S):
        n_inputs += 1
        valid = list(dtl.valid_mappings(O, S, leafmap))
        counters["valid_mappings_enumerated"] += len(valid)
        summ = []
        for m, evs in valid:
            cnt = {"S": 0, "D": 0, "T": 0}
            loss = 0
            for e in evs.values():
                cnt[e[0]] += 1
                loss += e[1]
            summ.append((cnt["S"], cnt["D"], cnt["T"], loss, m))
        empty_species = len(set(leafmap.values())) < len(S.leaves)
        lca_m = dtl.lca_mapping(O, S, leafmap)
        valid_keys = {tuple(sorted(m.items())) for m, _ in valid}
        for gcosts in (GENALL_MENU if shard.get("genall", True) else ()):
            g = check_generate_all(O, S, leafmap, valid_keys, gcosts, session=sess)
            n_eval += 1
            counters["generate_all_runs"] = counters.get("generate_all_runs", 0) + 1
            if g:
                vtotal += 1
                if len(viols) < 8 and not any(v["subcheck"] == g[0] for v in viols):
                    viols.append({"property": "C01", "subcheck": pre + g[0], "case": sjson(case_json(osh, ssh, leafmap, gcosts)),
                                  "detail": g[1] + f" (costs {A.costs_to_json(gcosts)})"})
        for costs in menu:
            spe, dup, hgt, fl = costs[:4]
            best = dtl.INF
            opt = []
            for s_, d_, t_, l_, m in summ:
                c = s_ * spe + d_ * dup + (t_ * hgt if t_ else 0) + l_ * fl
                if c < best:
                    best, opt = c, [(t_, m)]
                elif c == best:
                    opt.append((t_, m))
            lca_cost = dtl.cost_of(O, S, leafmap, costs[:4], lca_m)
            if empty_species or len(opt) >= 2 or any(t for t, _ in opt) or lca_cost != best:
                nt += 1
            summary = (best, [m for _, m in opt], len(valid))
            for algo in ALGOS:
                for policy in ("ALL", "ANY"):
                    n_eval += 1
                    counters["solver_runs"] += 1
                    bad = check_case(O, S, leafmap, costs, algo, policy, summary, session=sess)
                    if bad:
                        vtotal += 1
                        if len(viols) < 8 and not any(v["subcheck"] == bad[0] and v["case"].get("algorithm") == algo
                                                      for v in viols):
                            viols.append({"property": "C01", "subcheck": pre + bad[0],
                                          "case": sjson(case_json(osh, ssh, leafmap, costs, algo, policy)),
                                          "detail": (f"call #{sess.calls} on the shared input object: " if sess else "") + bad[1],
                                          "traceback": bad[2]})
        if len(samples) < 1:
            samples.append(case_json(osh, ssh, leafmap, menu[0], "thl", "ALL"))
    return {"evaluations": n_eval, "inputs": n_inputs, "nontrivial": nt, "samples": samples,
            "violations": viols, "violations_total": vtotal, "counters": counters}


def replay(v):
    case = v["case"]
    if case.get("session_shard"):
        res = run_shard(A.unpack(case["session_shard"]), "quick", 0)
        hits = [x for x in res["violations"] if x["subcheck"] == v.get("subcheck")] or res["violations"]
        return {"violated": bool(hits), "detail": (hits[0]["subcheck"] + ": " + hits[0]["detail"]) if hits else None}
    osh = shape_from_json(case["object_shape"])
    ssh = shape_from_json(case["species_shape"])
    O, S = T(osh), T(ssh)
    leafmap = {int(k): int(x) for k, x in case["leaf_object_species"]}
    if v.get("subcheck", "").startswith("genall") or "algorithm" not in case:
        valid = {tuple(sorted(m.items())) for m, _ in dtl.valid_mappings(O, S, leafmap)}
        g = check_generate_all(O, S, leafmap, valid, A.costs_from_json(case["costs"]) if case.get("costs") else (0, 1, 1, 1, 1))
        return {"violated": bool(g), "detail": g[1] if g else None}
    costs = A.costs_from_json(case["costs"])
    bad = check_case(O, S, leafmap, costs, case["algorithm"], case["policy"])
    return {"violated": bool(bad), "detail": (bad[0] + ": " + bad[1]) if bad else None}
