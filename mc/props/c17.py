"""C17 - ancestry queries (LCA structure) and range-minimum queries are exact."""
import itertools
import traceback

from .. import adapters as A  # noqa: F401
from ..refmodel.trees import T, plane_trees, shape_from_json
from ete3 import Tree
from superrec2.utils.trees import LowestCommonAncestor
from superrec2.utils.range_min_query import RangeMinQuery

PROP = "C17"
LEVEL = "exploration"
RULE = (
    "every rooted plane tree of any arity (unary nodes included) with <= N nodes (N = 11 quick, 12 thorough), built as an "
    "ete3 tree through the API; every node, ordered pair and ordered triple of nodes (repetitions included): lca(*nodes), "
    "is_ancestor_of, is_strict_ancestor_of, is_comparable, level, distance against parent-chain definitions. "
    "RangeMinQuery: every array of length 1..L over {0,1,2} (L = 11 quick, 13 thorough) and every (start, stop) in "
    "[0..len]^2 (empty and reversed ranges included), up to length 8 also with elements that support `<` only. Edit histories: for every plane tree with <= 7 (8) nodes a structure is "
    "built and queried, then the same ete3 tree object is edited in place (every subtree move, every leaf addition, every "
    "leaf removal) and a second structure built on it must answer every node / pair query for the new topology. Non-trivial: a tree query whose arguments are pairwise distinct "
    "and incomparable, or a range query of length >= 2 whose minimum is not at either end."
)
ASSUMPTIONS = ["ete3 tree container (children order, parent pointers)", "parent-chain definitions in refmodel/trees.py"]
BUDGET = {"quick": 600, "thorough": 1800}


def plan(tier, seed):
    out = []
    maxn = 11 if tier == "quick" else 12
    for n in range(1, maxn + 1):
        shapes = list(plane_trees(n))
        for i in range(0, len(shapes), 8):
            out.append({"slice": f"trees<= {maxn} nodes", "mode": "tree", "shapes": shapes[i:i + 8]})
    # operation histories: structure built, tree edited in place (every subtree move, leaf addition, leaf removal), rebuilt
    maxe = 7 if tier == "quick" else 8
    for n in range(2, maxe + 1):
        shapes = list(plane_trees(n))
        for i in range(0, len(shapes), 4):
            out.append({"slice": f"edited trees<= {maxe} nodes", "mode": "edit", "shapes": shapes[i:i + 4]})
    maxc = 7 if tier == "quick" else 8
    for n in range(3, maxc + 1):
        shapes = list(plane_trees(n))
        for i in range(0, len(shapes), 8):
            out.append({"slice": f"coexisting structures<= {maxc} nodes", "mode": "coexist", "shapes": shapes[i:i + 8]})
    maxl = 11 if tier == "quick" else 13
    for length in range(1, maxl + 1):
        for first in range(3):
            for second in (range(3) if length >= 8 else [None]):
                out.append({"slice": f"rmq<= {maxl}", "mode": "rmq", "length": length, "first": first, "second": second})
    return out


def build_ete(t, same_names=False):
    """same_names: every node carries the same (empty) name, as in a Newick string without labels"""
    nodes = {}
    for v in t.order_pre():
        if t.parent[v] is None:
            nodes[v] = Tree(name="" if same_names else f"n{v}")
        else:
            nodes[v] = nodes[t.parent[v]].add_child(name="" if same_names else f"n{v}")
        if same_names:
            nodes[v].dist = 0.25 + (v % 3)     # branch lengths other than 1: levels and distances count edges, not lengths
    return nodes


def check_tree(shape):
    """None or (detail, query)"""
    t = T(shape)
    nodes = build_ete(t)
    lca = LowestCommonAncestor(nodes[t.root])
    bad, n, nt = verify(t, nodes, lca)
    if bad or t.n > 7:
        return bad, n, nt
    # the same tree with nameless nodes (queries are about node objects, not names)
    nodes = build_ete(t, same_names=True)
    lca = LowestCommonAncestor(nodes[t.root])
    bad2, n2, nt2 = verify(t, nodes, lca, triples=False)
    if bad2:
        bad2 = ("with nameless nodes: " + bad2[0].replace("= ,", "= <nameless>,"), bad2[1])
    return bad2, n + n2, nt + nt2


def verify(t, nodes, lca, triples=True):
    V = list(range(t.n))
    nt = n = 0
    for a in V:
        n += 1
        if lca(nodes[a]) is not nodes[a]:
            return (f"lca(n{a}) != n{a}", [a]), n, nt
        if lca.level(nodes[a]) != t.depth[a]:
            return (f"level(n{a}) = {lca.level(nodes[a])}, depth is {t.depth[a]}", [a]), n, nt
    for a, b in itertools.product(V, repeat=2):
        n += 1
        na, nb = nodes[a], nodes[b]
        if a != b and not t.comparable(a, b):
            nt += 1
        want = t.lca(a, b)
        got = lca(na, nb)
        if got is not nodes[want]:
            return (f"lca(n{a}, n{b}) = {got.name}, expected n{want}", [a, b]), n, nt
        if bool(lca.is_ancestor_of(na, nb)) != t.anc(a, b):
            return (f"is_ancestor_of(n{a}, n{b}) = {lca.is_ancestor_of(na, nb)}", [a, b]), n, nt
        if bool(lca.is_strict_ancestor_of(na, nb)) != t.sanc(a, b):
            return (f"is_strict_ancestor_of(n{a}, n{b}) = {lca.is_strict_ancestor_of(na, nb)}", [a, b]), n, nt
        if bool(lca.is_comparable(na, nb)) != t.comparable(a, b):
            return (f"is_comparable(n{a}, n{b}) = {lca.is_comparable(na, nb)}", [a, b]), n, nt
        if lca.distance(na, nb) != t.dist(a, b):
            return (f"distance(n{a}, n{b}) = {lca.distance(na, nb)}, expected {t.dist(a, b)}", [a, b]), n, nt
    for a, b, c in (itertools.product(V, repeat=3) if triples else ()):
        n += 1
        if len({a, b, c}) == 3 and not t.comparable(a, b) and not t.comparable(b, c) and not t.comparable(a, c):
            nt += 1
        want = t.lca(a, b, c)
        got = lca(nodes[a], nodes[b], nodes[c])
        if got is not nodes[want]:
            return (f"lca(n{a}, n{b}, n{c}) = {got.name}, expected n{want}", [a, b, c]), n, nt
    if t.n >= 4:
        n += 1
        got = lca(*[nodes[v] for v in t.leaves])
        want = t.lca(*t.leaves)
        if got is not nodes[want]:
            return (f"lca(all leaves) = {got.name}, expected n{want}", list(t.leaves)), n, nt
    return None, n, nt


def check_coexisting(shape):
    """several LowestCommonAncestor objects alive at once on shared node objects: one for the whole tree and one for the
    subtree of every internal node, built before and after the whole-tree one; each must keep answering for ITS tree.
    -> (bad, n, nt)"""
    t = T(shape)
    n = nt = 0
    for order in ("sub_first", "whole_first"):
        nodes = build_ete(t)
        subs = {}
        whole = None
        if order == "whole_first":
            whole = LowestCommonAncestor(nodes[t.root])
        for v in t.internal:
            if v != t.root:
                subs[v] = LowestCommonAncestor(nodes[v])
        if whole is None:
            whole = LowestCommonAncestor(nodes[t.root])
        bad, k, k2 = verify(t, nodes, whole, triples=False)
        n += k
        nt += k2
        if bad:
            return (f"whole-tree structure with subtree structures alive ({order}): " + bad[0], bad[1]), n, nt
        for v, sub in subs.items():
            inside = t.subtree_nodes(v)
            for a in inside:
                for b in inside:
                    n += 1
                    want = t.lca(a, b)
                    got = sub(nodes[a], nodes[b])
                    if got is not nodes[want]:
                        return (f"structure of the subtree at n{v} ({order}): lca(n{a}, n{b}) = {got.name}, expected n{want}", [a, b]), n, nt
                    if sub.distance(nodes[a], nodes[b]) != t.dist(a, b):
                        return (f"structure of the subtree at n{v} ({order}): distance(n{a}, n{b}) = "
                                f"{sub.distance(nodes[a], nodes[b])}, expected {t.dist(a, b)}", [a, b]), n, nt
                if sub.level(nodes[a]) != t.depth[a] - t.depth[v]:
                    return (f"structure of the subtree at n{v} ({order}): level(n{a}) = {sub.level(nodes[a])}", [a]), n, nt
    return None, n, nt


def edits_of(t):
    """every single edit of a tree: ("spr", v, u) = detach the subtree of v and re-attach it as last child of u (u outside
    that subtree; u = parent(v) only reorders the children), ("add", u) = new leaf under u, ("del", v) = remove leaf v"""
    out = []
    for v in range(t.n):
        if t.parent[v] is None:
            continue
        sub = set(t.subtree_nodes(v))
        for u in range(t.n):
            if u not in sub:
                out.append(("spr", v, u))
        if not t.children[v]:
            out.append(("del", v))
    for u in range(t.n):
        out.append(("add", u))
    return out


def check_edit(shape, edit):
    """history: build the structure on a tree, edit the SAME ete3 tree object, build a new structure on it: the new one
    must answer for the new topology.  -> (bad, n, nt)"""
    t = T(shape)
    nodes = build_ete(t)
    root = nodes[t.root]
    first = LowestCommonAncestor(root)
    for a in range(t.n):
        first(nodes[a], root)
    if edit[0] == "spr":
        sub = nodes[edit[1]].detach()
        nodes[edit[2]].add_child(sub)
    elif edit[0] == "add":
        nodes[edit[1]].add_child(name="new")
    else:
        nodes[edit[1]].detach()
    t2, idx = A.model_from_ete(root)
    nodes2 = {v: nd for nd, v in idx.items()}
    second = LowestCommonAncestor(root)
    bad, n, nt = verify(t2, nodes2, second, triples=False)
    if bad:
        return (f"after edit {edit} of the tree on which a structure had been built: " + bad[0], bad[1]), n, nt
    return None, n, nt


class LtOnly:
    """an element that can be compared with `<` and nothing else (the documented requirement on RangeMinQuery elements)"""
    __slots__ = ("v",)

    def __init__(self, v):
        self.v = v

    def __lt__(self, other):
        return self.v < other.v

    def __repr__(self):
        return f"LtOnly({self.v})"


def check_rmq(arr):
    rmq = RangeMinQuery(list(arr))
    L = len(arr)
    n = nt = 0
    if L <= 8:
        # the same array with elements that support `<` only; the answer must be AN element of minimal value from the range
        objs = [LtOnly(x) for x in arr]
        try:
            rmq2 = RangeMinQuery(list(objs))
            for a in range(L + 1):
                for b in range(L + 1):
                    n += 1
                    got = rmq2(a, b)
                    if a < b:
                        if not any(got is o for o in objs[a:b]) or got.v != min(arr[a:b]):
                            return (f"rmq({a}, {b}) on {objs} (elements comparable by < only) = {got!r}", [a, b]), n, nt
                    elif got is not None:
                        return (f"rmq({a}, {b}) on {objs} = {got!r}, expected None", [a, b]), n, nt
        except Exception as exc:
            return (f"elements comparable by < only, array {objs}: raised {type(exc).__name__}: {exc}", [0, L]), n, nt
    for a in range(L + 1):
        for b in range(L + 1):
            n += 1
            want = min(arr[a:b]) if a < b else None
            got = rmq(a, b)
            if a < b and b - a >= 2 and want not in (arr[a], arr[b - 1]):
                nt += 1
            if got != want:
                return (f"rmq({a}, {b}) on {list(arr)} = {got!r}, expected {want!r}", [a, b]), n, nt
    return None, n, nt


def run_shard(shard, tier, seed):
    n_eval = nt = vtotal = 0
    viols = []
    samples = []
    if shard["mode"] == "edit":
        for shape in shard["shapes"]:
            for edit in edits_of(T(shape)):
                try:
                    bad, n, k = check_edit(shape, edit)
                except Exception as exc:
                    bad, n, k = (f"exception {type(exc).__name__}: {exc}\n{traceback.format_exc(limit=4)}", None), 1, 0
                n_eval += n
                nt += k
                if bad:
                    vtotal += 1
                    if len(viols) < 4:
                        viols.append({"property": PROP, "subcheck": "tree_edit_history", "detail": bad[0],
                                      "case": {"mode": "edit", "shape": shape, "edit": list(edit), "query": bad[1]}})
                if not samples:
                    samples.append({"mode": "edit", "shape": shape, "edit": list(edit)})
    elif shard["mode"] == "coexist":
        for shape in shard["shapes"]:
            try:
                bad, n, k = check_coexisting(shape)
            except Exception as exc:
                bad, n, k = (f"exception {type(exc).__name__}: {exc}\n{traceback.format_exc(limit=4)}", None), 1, 0
            n_eval += n
            nt += k
            if bad:
                vtotal += 1
                if len(viols) < 4:
                    viols.append({"property": PROP, "subcheck": "coexisting_structures", "detail": bad[0],
                                  "case": {"mode": "coexist", "shape": shape, "query": bad[1]}})
            if not samples:
                samples.append({"mode": "coexist", "shape": shape})
    elif shard["mode"] == "tree":
        for shape in shard["shapes"]:
            try:
                bad, n, k = check_tree(shape)
            except Exception as exc:
                bad, n, k = (f"exception {type(exc).__name__}: {exc}\n{traceback.format_exc(limit=4)}", None), 1, 0
            n_eval += n
            nt += k
            if bad:
                vtotal += 1
                if len(viols) < 4:
                    viols.append({"property": PROP, "subcheck": "tree_query", "case": {"mode": "tree", "shape": shape, "query": bad[1]},
                                  "detail": bad[0]})
            if not samples:
                samples.append({"mode": "tree", "shape": shape})
    else:
        length = shard["length"]
        fixed = [shard["first"]] + ([shard["second"]] if shard["second"] is not None else [])
        if len(fixed) > length:
            return {"evaluations": 0, "nontrivial": 0, "samples": [], "violations": []}
        for rest in itertools.product(range(3), repeat=length - len(fixed)):
            arr = tuple(fixed) + rest
            try:
                bad, n, k = check_rmq(arr)
            except Exception as exc:
                bad, n, k = (f"exception {type(exc).__name__}: {exc}\n{traceback.format_exc(limit=4)}", None), 1, 0
            n_eval += n
            nt += k
            if bad:
                vtotal += 1
                if len(viols) < 4:
                    viols.append({"property": PROP, "subcheck": "rmq", "case": {"mode": "rmq", "array": list(arr), "query": bad[1]},
                                  "detail": bad[0]})
            if not samples:
                samples.append({"mode": "rmq", "array": list(arr)})
    return {"evaluations": n_eval, "nontrivial": nt, "samples": samples, "violations": viols, "violations_total": vtotal}


def replay(v):
    case = v["case"]
    try:
        if case["mode"] == "tree":
            bad, _, _ = check_tree(shape_from_json(case["shape"]))
        elif case["mode"] == "coexist":
            bad, _, _ = check_coexisting(shape_from_json(case["shape"]))
        elif case["mode"] == "edit":
            bad, _, _ = check_edit(shape_from_json(case["shape"]), tuple(case["edit"]))
        else:
            bad, _, _ = check_rmq(tuple(case["array"]))
    except Exception as exc:
        bad = (f"exception {type(exc).__name__}: {exc}", None)
    return {"violated": bool(bad), "detail": bad[0] if bad else None}
