"""C12 - the command-line tool names nodes, reports the true cost and writes readable output."""
import itertools
import json
import os
import sys
import traceback

from .. import adapters as A
from .. import cli_driver, stubs
from .. import labelled as L
from .. import spaces
from ..refmodel import dtl, ordered
from ..refmodel.trees import T, shape_from_json
from ete3 import Tree
from superrec2.model.reconciliation import ReconciliationOutput, SuperReconciliationOutput

PROP = "C12"
LEVEL = "exploration"
INF = dtl.INF
RULE = (
    "documented-format input files generated from every binary input of the slice (leaf names <species>_<id>, with and "
    "without an explicit leaf_object_species) x naming patterns of the ancestors of both trees (all named, none named, "
    "each single ancestor unnamed, pre-existing names of the auto-label form O0/O1/S0 elsewhere in the tree, a species "
    "leaf called S0) x all seven algorithms (labelled ones with every consistent tuple of leaf syntenies on <= 2 families) "
    "x {any, all} x cost options {defaults, --cost-dup 2 --cost-sloss 0, --cost-hgt float('inf')}; `reconcile` is run "
    "in-process through superrec2.cli.__main__.run() (the first cases of every shard also as real subprocesses, outputs "
    "compared). Verdict: status 0, one JSON object per line, node names distinct and non-empty, named nodes untouched, "
    "unnamed ancestors named by the reference pre-order numbering, each object parses back to a solution whose cost() is "
    "the printed minimum, all-lines contain the any-line, `draw` (stub measurer) accepts each object in both "
    "orientations; a super-reconciliation algorithm without syntenies exits 1 with empty output. Non-trivial: an input "
    "with >= 1 unnamed ancestor or a pre-existing auto-label-like name."
)
ASSUMPTIONS = [
    "in-process driver validated against real `python -m superrec2.cli` subprocesses on the first cases of every shard",
    "TeX measurer replaced by the deterministic stub (no TeX engine in the image)",
]
BUDGET = {"quick": 900, "thorough": 3300}
ALGOS = ("lca", "thl", "exh", "base_spfs", "ext_spfs", "base_uspfs", "superdtl")
COST_OPTS = [[], ["--cost-dup", "2", "--cost-sloss", "0"], ["--cost-hgt", "float('inf')"],
             # costs whose optimum needs more than six significant digits / is not an integer
             ["--cost-dup", "1000000", "--cost-floss", "1/3", "--cost-sloss", "7"],
             # a zero unit cost for an event the solutions do use (kept inside spe + 2*sloss <= dup + 2*floss: outside it ANY
             # may return a non-optimal solution, the recorded finding F-COHERENCE)
             ["--cost-dup", "0", "--cost-hgt", "2"],
             # LAST entry, plain algorithms only: a speciation dearer than a duplication plus two losses (what the tool
             # prints and writes must still agree with each other; nothing is said here about optimality)
             ["--cost-spe", "2", "--cost-floss", "0"]]


def worker_init():
    stubs.install(stubs.Stub("hash", 1))


# ------------------------------------------------------------------ naming patterns
def object_patterns(O):
    """list of (id, {internal node: name or ''})"""
    ints = O.internal
    pats = [("all_named", {v: f"anc{v}" for v in ints}), ("none_named", {v: "" for v in ints})]
    if len(ints) >= 2:
        for u in ints:
            pats.append((f"only_{u}_unnamed", {v: ("" if v == u else f"anc{v}") for v in ints}))
    for i, u in enumerate(ints):
        for taken in ("O0", "O1"):
            pats.append((f"{taken}_at_{u}", {v: (taken if v == u else "") for v in ints}))
    if len(ints) >= 2:
        pats.append(("O1_O0_swapped", {v: ("O1" if v == ints[0] else "O0" if v == ints[1] else "") for v in ints}))
    if len(ints) >= 3:
        # consecutive auto-label-like names taken, one ancestor left to be numbered past both
        pats.append(("O0_O1_taken", {v: ("O0" if v == ints[-1] else "O1" if v == ints[-2] else "") for v in ints}))
        pats.append(("O0_O2_taken", {v: ("O0" if v == ints[1] else "O2" if v == ints[2] else "") for v in ints}))
    return pats


def _merge(a, b):
    d = dict(a)
    d.update(b)
    return d


def species_patterns(S):
    """list of (id, {node: name}) - leaves always named"""
    base = {v: f"sp{v}" for v in S.leaves}
    ints = S.internal
    pats = [("all_named", _merge(base, {v: f"clade{v}" for v in ints})), ("none_named", _merge(base, {v: "" for v in ints}))]
    if ints:
        pats.append(("S0_inner", _merge(base, {v: ("S0" if v == ints[-1] else "") for v in ints})))
        leaf0 = S.leaves[0]
        alt = dict(base)
        alt[leaf0] = "S0"
        pats.append(("S0_leaf", _merge(alt, {v: "" for v in ints})))
        if len(ints) >= 2:
            pats.append(("S1_root_rest_unnamed", _merge(base, {v: ("S1" if v == ints[0] else "") for v in ints})))
            pats.append(("S0_leaf_S1_inner", _merge(alt, {v: ("S1" if v == ints[-1] else "") for v in ints})))
        # species names that contain an underscore themselves (leaf names then have two: <spe_cies>_<id>)
        und = {v: f"sp_{v}" for v in S.leaves}
        pats.append(("underscore_species", _merge(und, {v: "" for v in ints})))
        # consecutive auto-label-like names on the leaves, every ancestor unnamed
        pats.append(("S_leaves_taken", _merge({v: f"S{i}" for i, v in enumerate(S.leaves)}, {v: "" for v in ints})))
        pats.append(("S_leaves_taken_gap", _merge({v: f"S{2 * i}" for i, v in enumerate(S.leaves)}, {v: "" for v in ints})))
    return pats


def expected_names(tree_model, names, prefix):
    """reference numbering: unnamed nodes get prefix# in pre-order, skipping numbers in use"""
    used = set(n for n in names.values() if n)
    out = dict(names)
    nxt = 0
    for v in tree_model.order_pre():
        if not out[v]:
            while f"{prefix}{nxt}" in used:
                nxt += 1
            out[v] = f"{prefix}{nxt}"
            used.add(out[v])
    return out


def make_input(O, S, leafmap, opat, spat, leafsyn, explicit):
    snames = dict(spat)
    onames = dict(opat)
    for v in O.leaves:
        onames[v] = f"{snames[leafmap[v]]}_{v}"
    data = {"object_tree": O.newick(onames), "species_tree": S.newick(snames)}
    if explicit:
        data["leaf_object_species"] = {onames[v]: snames[leafmap[v]] for v in O.leaves}
    if leafsyn is not None:
        data["leaf_syntenies"] = {onames[v]: list(leafsyn[v]) for v in O.leaves}
    return data, onames, snames


def names_in_preorder(newick):
    t = Tree(newick, format=1)
    return [n.name for n in t.traverse("preorder")], t


def shape_of_ete(t):
    if t.is_leaf():
        return None
    return tuple(shape_of_ete(c) for c in t.children)


# ------------------------------------------------------------------ verdict
def check_reconcile(O, S, leafmap, opat, spat, leafsyn, explicit, algo, cost_opt, subprocess_too=False, draw=True):
    """None or (subcheck, detail)"""
    data, onames, snames = make_input(O, S, leafmap, opat, spat, leafsyn, explicit)
    text = json.dumps(data)
    want_o = expected_names(O, onames, "O")
    want_s = expected_names(S, snames, "S")
    lines_by_policy = {}
    for policy in ("any", "all"):
        argv = ["reconcile", "--solutions", policy] + cost_opt + [algo]
        try:
            status, out, err, _ = cli_driver.run_cli(argv, text)
        except Exception as exc:
            return ("exception", f"reconcile {algo} --solutions {policy} raised {type(exc).__name__}: {exc}\n"
                    f"{traceback.format_exc(limit=6)}")
        if subprocess_too:
            st2, out2, err2 = cli_driver.run_cli_subprocess(argv, text)
            strip = lambda e: [ln for ln in e.splitlines() if ln.startswith(("Minimum", "Error", "Warning"))]  # noqa: E731
            if st2 != status or sorted(out2.splitlines()) != sorted(out.splitlines()) or strip(err2) != strip(err):
                return ("driver_conformance", f"in-process run differs from the real command: status {status} vs {st2}; "
                        f"stdout {out[:200]!r} vs {out2[:200]!r}; stderr {strip(err)} vs {strip(err2)}")
        if status != 0:
            return ("status", f"reconcile {algo} --solutions {policy} exited with {status}; stderr: {err[-300:]}")
        printed = cli_driver.parse_min_cost(err)
        lines = [ln for ln in out.split("\n") if ln.strip()]
        if printed is None or not lines:
            return ("no_output", f"reconcile {algo}: no 'Minimum cost:' line or no solution written; stderr {err[-200:]}")
        if policy == "any" and len(lines) != 1:
            return ("any_count", f"--solutions any wrote {len(lines)} lines")
        canon = []
        for ln in lines:
            try:
                obj = json.loads(ln)
            except Exception as exc:
                return ("not_json", f"output line is not a JSON object: {ln[:200]} ({exc})")
            canon.append(json.dumps(obj, sort_keys=True))
            for key, tm, want, inames in (("object_tree", O, want_o, onames), ("species_tree", S, want_s, snames)):
                got, tree = names_in_preorder(obj["input"][key])
                if shape_of_ete(tree) != tm.shape:
                    return ("tree_changed", f"{key} changed shape: {obj['input'][key]}")
                if len(set(got)) != len(got) or any(not n or n == "NoName" for n in got):
                    return ("names_not_unique", f"{key} written with names {got}")
                wanted = [want[v] for v in tm.order_pre()]
                if got != wanted:
                    return ("naming", f"{key} written with names {got}, expected {wanted} (input names "
                            f"{[inames[v] for v in tm.order_pre()]})")
            try:
                cls = SuperReconciliationOutput if "syntenies" in obj else ReconciliationOutput
                sol = cls.from_dict(obj)
                c = A.impl_cost(sol.cost())
            except Exception as exc:
                return ("unreadable", f"written object does not parse back: {type(exc).__name__}: {exc}; line {ln[:200]}")
            if float(c) != float(printed):
                return ("min_cost", f"printed 'Minimum cost: {printed}' but the written object costs {c}")
            if set(obj["object_species"]) != set(want_o.values()):
                return ("mapping_keys", f"object_species keys {sorted(obj['object_species'])} != node names {sorted(want_o.values())}")
        lines_by_policy[policy] = canon
        if draw:
            for ln in lines[:2]:
                for orient in ("vertical", "horizontal"):
                    try:
                        st, _, derr, raw = cli_driver.run_cli(["draw", "--orientation", orient], ln)
                    except Exception as exc:
                        return ("draw", f"draw --orientation {orient} raised {type(exc).__name__}: {exc} on {ln[:200]}\n"
                                f"{traceback.format_exc(limit=4)}")
                    if st != 0 or b"\\begin{tikzpicture}" not in raw:
                        return ("draw", f"draw --orientation {orient} exited {st} / wrote no picture for {ln[:200]}")
    if not set(lines_by_policy["any"]) <= set(lines_by_policy["all"]):
        return ("any_not_in_all", f"--solutions all ({len(lines_by_policy['all'])} objects) does not contain the --solutions any object")
    if len(set(lines_by_policy["all"])) != len(lines_by_policy["all"]):
        return ("all_duplicates", "--solutions all wrote the same object twice")
    return None


def _clade_names(tree):
    """ete3 tree -> {frozenset of leaf names: node}"""
    return {frozenset(l.name for l in n.iter_leaves()): n for n in tree.traverse()}


def check_reconcile_poly(O, S, leafmap, onames_in, snames_in, leafsyn, algo, cost_opt):
    """Multifurcating input (extended solvers only).  Refinements add ancestors, so names are checked clade by clade:
    a clade of the input keeps its name if it had one; every other ancestor must carry the reference pre-order
    numbering of the written (binary) tree.  None or (subcheck, detail)"""
    snames = dict(snames_in)
    onames = dict(onames_in)
    for v in O.leaves:
        onames[v] = f"{snames[leafmap[v]]}_{v}"
    data = {"object_tree": O.newick(onames), "species_tree": S.newick(snames),
            "leaf_object_species": {onames[v]: snames[leafmap[v]] for v in O.leaves},
            "leaf_syntenies": {onames[v]: list(leafsyn[v]) for v in O.leaves}}
    text = json.dumps(data)
    lines_by_policy = {}
    for policy in ("any", "all"):
        argv = ["reconcile", "--solutions", policy] + cost_opt + [algo]
        try:
            status, out, err, _ = cli_driver.run_cli(argv, text)
        except Exception as exc:
            return ("exception", f"reconcile {algo} --solutions {policy} raised {type(exc).__name__}: {exc}\n"
                    f"{traceback.format_exc(limit=6)}")
        if status != 0:
            return ("status", f"reconcile {algo} --solutions {policy} exited with {status}; stderr: {err[-300:]}")
        printed = cli_driver.parse_min_cost(err)
        lines = [ln for ln in out.split("\n") if ln.strip()]
        if printed is None or not lines:
            return ("no_output", f"reconcile {algo}: no 'Minimum cost:' line or no solution written; stderr {err[-200:]}")
        if policy == "any" and len(lines) != 1:
            return ("any_count", f"--solutions any wrote {len(lines)} lines")
        canon = []
        for ln in lines:
            try:
                obj = json.loads(ln)
            except Exception as exc:
                return ("not_json", f"output line is not a JSON object: {ln[:200]} ({exc})")
            canon.append(json.dumps(obj, sort_keys=True))
            for key, tm, inames, prefix in (("object_tree", O, onames, "O"), ("species_tree", S, snames, "S")):
                got, tree = names_in_preorder(obj["input"][key])
                if any(len(n.children) not in (0, 2) for n in tree.traverse()):
                    return ("not_binary", f"{key} written non-binary: {obj['input'][key]}")
                if len(set(got)) != len(got) or any(not n or n == "NoName" for n in got):
                    return ("names_not_unique", f"{key} written with names {got} (input {data[key]})")
                in_clades = {frozenset(inames[l] for l in tm.leaves_under(v)): inames[v] for v in range(tm.n)}
                out_clades = _clade_names(tree)
                for cl, nm in in_clades.items():
                    if cl not in out_clades:
                        return ("clade_lost", f"{key}: clade {sorted(cl)} of the input is missing from {obj['input'][key]}")
                    if nm and out_clades[cl].name != nm:
                        return ("naming", f"{key}: node of clade {sorted(cl)} was named {nm!r}, written as {out_clades[cl].name!r}")
                # reference numbering on the written topology
                used = set(n for n in in_clades.values() if n)
                nxt = 0
                for node in tree.traverse("preorder"):
                    cl = frozenset(l.name for l in node.iter_leaves())
                    if in_clades.get(cl):
                        continue
                    while f"{prefix}{nxt}" in used:
                        nxt += 1
                    want = f"{prefix}{nxt}"
                    used.add(want)
                    if node.name != want:
                        return ("naming", f"{key}: written {obj['input'][key]} for input {data[key]}: ancestor of clade "
                                f"{sorted(cl)} is called {node.name!r}, reference pre-order numbering gives {want!r}")
            try:
                sol = SuperReconciliationOutput.from_dict(obj)
                c = A.impl_cost(sol.cost())
            except Exception as exc:
                return ("unreadable", f"written object does not parse back: {type(exc).__name__}: {exc}; line {ln[:300]}")
            if float(c) != float(printed):
                return ("min_cost", f"printed 'Minimum cost: {printed}' but the written object costs {c}: {ln[:300]}")
        lines_by_policy[policy] = canon
        for ln in lines[:3]:
            for orient in ("vertical", "horizontal"):
                try:
                    st, _, derr, raw = cli_driver.run_cli(["draw", "--orientation", orient], ln)
                except Exception as exc:
                    return ("draw", f"draw --orientation {orient} raised {type(exc).__name__}: {exc} on {ln[:300]}")
                if st != 0 or b"\\begin{tikzpicture}" not in raw:
                    return ("draw", f"draw --orientation {orient} exited {st} / wrote no picture for {ln[:200]}")
    if not set(lines_by_policy["any"]) <= set(lines_by_policy["all"]):
        return ("any_not_in_all", f"--solutions all ({len(lines_by_policy['all'])} objects) does not contain the --solutions any object")
    if len(set(lines_by_policy["all"])) != len(lines_by_policy["all"]):
        return ("all_duplicates", "--solutions all wrote the same object twice")
    return None


def poly_patterns(tm, prefix):
    ints = tm.internal
    pats = [("all_named", {v: f"{prefix.lower()}anc{v}" for v in ints}), ("none_named", {v: "" for v in ints})]
    if ints:
        pats.append((f"{prefix}0_at_last", {v: (f"{prefix}0" if v == ints[-1] else "") for v in ints}))
        pats.append((f"{prefix}1_at_root", {v: (f"{prefix}1" if v == ints[0] else "") for v in ints}))
    return pats


def check_missing_syntenies(O, S, leafmap, opat, spat, algo):
    data, _, _ = make_input(O, S, leafmap, opat, spat, None, True)
    try:
        status, out, err, _ = cli_driver.run_cli(["reconcile", algo], json.dumps(data))
    except Exception as exc:
        return ("exception", f"reconcile {algo} without syntenies raised {type(exc).__name__}: {exc}")
    if status != 1 or out != "":       # "writes nothing": not even a line break
        return ("missing_syntenies", f"reconcile {algo} on an input without leaf_syntenies: status {status}, stdout {out[:100]!r}")
    return None


# ------------------------------------------------------------------ exploration
def plan(tier, seed):
    out = []
    # quick: <=3 x <=2 leaves plus the 4-leaf objects on a single species (three ancestors are needed for the naming
    # patterns in which two consecutive auto-label-like names are taken)
    # and the 5-leaf objects on one species / one object on 5-leaf species trees (the first size at which pre-order and
    # breadth-first numbering of the ancestors differ)
    # and <= 3 object leaves on the two 3-leaf species trees (reduced patterns / algorithms: the drawings need lineages that
    # cross two species levels)
    pairs = (spaces.shape_pairs(3, 2) + spaces.shape_pairs(5, 1, min_obj=4) + spaces.shape_pairs(1, 5, min_sp=5)
             + spaces.shape_pairs(3, 3, min_obj=2, min_sp=3) if tier == "quick"
             else spaces.shape_pairs(3, 3) + spaces.shape_pairs(4, 2, min_obj=4) + spaces.shape_pairs(5, 1, min_obj=5)
             + spaces.shape_pairs(2, 5, min_sp=4))
    for osh, ssh in pairs:
        n = spaces.count_assignments(osh, ssh)
        for i in range(n):
            out.append({"slice": f"cli:{'P3x2+P4..5x1+P1x5+P3x3lite' if tier == 'quick' else 'P3x3+P4x2+P5x1+P2x4..5'}", "osh": osh, "ssh": ssh, "asg": i, "full": tier != "quick"})
    # multifurcating input files (extended solvers): at least one polytomy in either tree
    maxo, maxs = (3, 3) if tier == "quick" else (4, 3)
    for no in range(2, maxo + 1):
        for ns in range(1, maxs + 1):
            for osh in spaces.schroeder_shapes(no):
                for ssh in spaces.schroeder_shapes(ns):
                    if T(osh).is_binary() and T(ssh).is_binary():
                        continue
                    if no == 4 and not (T(ssh).is_binary() and max(len(T(osh).children[v]) for v in range(T(osh).n)) == 3):
                        continue
                    for i in range(spaces.count_assignments(osh, ssh)):
                        out.append({"slice": "cli:polytomies", "mode": "poly", "osh": osh, "ssh": ssh, "asg": i,
                                    "full": tier != "quick"})
    return out


def cases_for(O, S, leafmap, full):
    """generator of (opat id, opat, spat id, spat, algo, leafsyn, explicit, cost option index)"""
    o2, u2 = spaces.ordered_syntenies(2), spaces.unordered_syntenies(2)
    n = len(O.leaves)
    osyn = [dict(zip(O.leaves, t)) for t in spaces.synteny_tuples(n, o2) if ordered.root_orders(dict(zip(O.leaves, t)))]
    usyn = [dict(zip(O.leaves, t)) for t in spaces.synteny_tuples(n, u2)]
    # every other synteny tuple spells its families with characters that mean something to TeX or to Newick (the drawing
    # must be produced all the same; whether TeX can typeset it is not decided here)
    special = {"a": "amp^r", "b": "x#1%&$~{}"}
    osyn = [d if i % 2 == 0 else {v: tuple(special[f] for f in x) for v, x in d.items()} for i, d in enumerate(osyn)]
    usyn = [d if i % 2 == 0 else {v: tuple(special[f] for f in x) for v, x in d.items()} for i, d in enumerate(usyn)]
    k = 0
    opats, spats, algos = object_patterns(O), species_patterns(S), ALGOS
    if len(O.leaves) >= 5 or len(S.leaves) >= 5 or (not full and len(S.leaves) == 3):
        # the large trees are there for the numbering order only: fewer patterns, three algorithms
        opats = [p_ for p_ in opats if p_[0] in ("none_named", "O0_O1_taken", "O0_O2_taken") or p_[0].startswith("only_")]
        spats = [p_ for p_ in spats if p_[0] in ("none_named", "all_named", "S_leaves_taken", "underscore_species")]
        algos = ("lca", "thl", "superdtl")
    for oid, opat in opats:
        for sid, spat in spats:
            for algo in algos:
                if algo in ("lca", "thl", "exh"):
                    # a plain algorithm is also "compatible with the input" when the file carries leaf syntenies (the tool
                    # only warns): second variant with the first synteny tuple present in the file
                    syns = [None, usyn[0]]
                elif algo in ("base_spfs", "ext_spfs"):
                    syns = osyn if full else osyn[k % 3::3][:4]
                else:
                    syns = usyn if full else usyn[k % 3::3][:4]
                for leafsyn in syns:
                    nopt = len(COST_OPTS) if algo in ("lca", "thl", "exh") else len(COST_OPTS) - 1
                    opts = range(nopt) if full else [k % nopt]
                    for ci in opts:
                        k += 1
                        yield oid, opat, sid, spat, algo, leafsyn, bool(k % 2), ci


def poly_cases(O, S, full, asg):
    """cases of one leaf assignment: both extended solvers x (rotating half of / all) synteny tuples on 2 families, the
    16 (object pattern, species pattern) pairs and the cost options rotating over the cases"""
    o2, u2 = spaces.ordered_syntenies(2), spaces.unordered_syntenies(2)
    n = len(O.leaves)
    osyn = [dict(zip(O.leaves, t)) for t in spaces.synteny_tuples(n, o2) if ordered.root_orders(dict(zip(O.leaves, t)))]
    usyn = [dict(zip(O.leaves, t)) for t in spaces.synteny_tuples(n, u2)]
    leafmap = list(spaces.assignments(O, S))[asg]
    pats = [(o, s) for o in poly_patterns(O, "O") for s in poly_patterns(S, "S")]
    k = asg
    for algo, syns in (("ext_spfs", osyn), ("superdtl", usyn)):
        for leafsyn in (syns if full else syns[asg % 2::2]):
            k += 1
            (oid, opat), (sid, spat) = pats[k % len(pats)]
            yield leafmap, oid, opat, sid, spat, algo, leafsyn, k % (len(COST_OPTS) - 1)


def run_poly_shard(shard):
    osh, ssh = shard["osh"], shard["ssh"]
    O, S = T(osh), T(ssh)
    n_eval = nt = vtotal = 0
    viols = []
    samples = []
    for leafmap, oid, opat, sid, spat, algo, leafsyn, ci in poly_cases(O, S, shard["full"], shard["asg"]):
        n_eval += 1
        nt += 1
        snames = _merge({v: f"sp{v}" for v in S.leaves}, spat)
        bad = check_reconcile_poly(O, S, leafmap, opat, snames, leafsyn, algo, COST_OPTS[ci])
        case = {"poly": True, "object_shape": osh, "species_shape": ssh, "leaf_object_species": sorted(leafmap.items()),
                "object_pattern": oid, "species_pattern": sid, "algorithm": algo, "cost_option": ci,
                "leaf_syntenies": sorted((k, list(v)) for k, v in leafsyn.items())}
        if bad:
            vtotal += 1
            if len(viols) < 8 and not any(v["subcheck"] == bad[0] and v["case"]["algorithm"] == algo for v in viols):
                viols.append({"property": PROP, "subcheck": bad[0], "case": case, "detail": bad[1]})
        if not samples:
            samples.append(case)
    return {"evaluations": n_eval, "nontrivial": nt, "samples": samples, "violations": viols, "violations_total": vtotal,
            "counters": {"cli_polytomy_cases": n_eval}}


def run_shard(shard, tier, seed):
    if shard.get("mode") == "poly":
        return run_poly_shard(shard)
    osh, ssh = shard["osh"], shard["ssh"]
    O, S = T(osh), T(ssh)
    leafmap = list(spaces.assignments(O, S))[shard["asg"]]
    n_eval = nt = vtotal = 0
    viols = []
    samples = []
    counters = {"cli_reconcile_cases": 0, "subprocess_conformance_runs": 0}
    for idx, (oid, opat, sid, spat, algo, leafsyn, explicit, ci) in enumerate(cases_for(O, S, leafmap, shard["full"])):
        n_eval += 1
        counters["cli_reconcile_cases"] += 1
        sub = idx < 2 and shard["asg"] == 0     # driver conformance: the first cases of the first assignment of every shape pair
        if sub:
            counters["subprocess_conformance_runs"] += 2
        bad = check_reconcile(O, S, leafmap, opat, spat, leafsyn, explicit, algo, COST_OPTS[ci], subprocess_too=sub,
                              draw=(idx % 4 == 0 or shard["full"]))
        if oid != "all_named" or sid != "all_named":
            nt += 1
        case = {"object_shape": osh, "species_shape": ssh, "leaf_object_species": sorted(leafmap.items()),
                "object_pattern": oid, "species_pattern": sid, "algorithm": algo, "explicit": explicit, "cost_option": ci,
                "leaf_syntenies": None if leafsyn is None else sorted((k, list(v)) for k, v in leafsyn.items())}
        if bad:
            vtotal += 1
            if len(viols) < 8 and not any(v["subcheck"] == bad[0] and v["case"]["algorithm"] == algo for v in viols):
                viols.append({"property": PROP, "subcheck": bad[0], "case": case, "detail": bad[1]})
        if not samples and oid == "none_named":
            samples.append(dict(case, input_file=make_input(O, S, leafmap, opat, spat, leafsyn, explicit)[0]))
    for oid, opat in object_patterns(O)[:2]:
        for sid, spat in species_patterns(S)[:2]:
            for algo in ("base_spfs", "ext_spfs", "base_uspfs", "superdtl"):
                n_eval += 1
                bad = check_missing_syntenies(O, S, leafmap, opat, spat, algo)
                if bad:
                    vtotal += 1
                    if len(viols) < 8:
                        viols.append({"property": PROP, "subcheck": bad[0], "detail": bad[1],
                                      "case": {"object_shape": osh, "species_shape": ssh, "leaf_object_species": sorted(leafmap.items()),
                                               "object_pattern": oid, "species_pattern": sid, "algorithm": algo, "missing": True}})
    return {"evaluations": n_eval, "nontrivial": nt, "samples": samples, "violations": viols, "violations_total": vtotal,
            "counters": counters}


def replay(v):
    c = v["case"]
    O, S = T(shape_from_json(c["object_shape"])), T(shape_from_json(c["species_shape"]))
    leafmap = {int(k): int(x) for k, x in c["leaf_object_species"]}
    if not c.get("poly"):
        opat = dict(object_patterns(O))[c["object_pattern"]]
        spat = dict(species_patterns(S))[c["species_pattern"]]
    stubs.install(stubs.Stub("hash", 1))
    if c.get("poly"):
        opat = dict(poly_patterns(O, "O"))[c["object_pattern"]]
        spat = dict(poly_patterns(S, "S"))[c["species_pattern"]]
        leafsyn = {int(k): tuple(x) for k, x in c["leaf_syntenies"]}
        bad = check_reconcile_poly(O, S, leafmap, opat, _merge({v: f"sp{v}" for v in S.leaves}, spat), leafsyn,
                                   c["algorithm"], COST_OPTS[c["cost_option"]])
        return {"violated": bool(bad), "detail": (bad[0] + ": " + bad[1]) if bad else None}
    if c.get("missing"):
        bad = check_missing_syntenies(O, S, leafmap, opat, spat, c["algorithm"])
    else:
        leafsyn = None if c.get("leaf_syntenies") is None else {int(k): tuple(x) for k, x in c["leaf_syntenies"]}
        bad = check_reconcile(O, S, leafmap, opat, spat, leafsyn, c["explicit"], c["algorithm"], COST_OPTS[c["cost_option"]],
                              subprocess_too=(v.get("subcheck") == "driver_conformance"))
    return {"violated": bool(bad), "detail": (bad[0] + ": " + bad[1]) if bad else None}
