"""C13 - a diagram shows exactly the events the cost model counts."""
import os
import sys
import traceback

from .. import adapters as A
from .. import render_common as R
from .. import spaces, stubs
from ..refmodel import dtl, picture, text as reftext
from ..refmodel.trees import T
from superrec2.render import layout as layout_mod, tikz as tikz_mod
from superrec2.render.model import DrawParams, PseudoGene
from superrec2.model.reconciliation import NodeEvent, EdgeEvent, ReconciliationOutput

PROP = "C13"
LEVEL = "exploration"
RULE = (
    "every valid species mapping (enumerated by the reference model) of every binary input within the slice bounds x "
    "{unlabelled, ordered labelling 'every node = root synteny', ordered labelling with losses} x {vertical, horizontal} "
    "x stub size functions (rotating through 4 kinds/salts). layout.compute must hold exactly one non-pseudo branch per "
    "object node, in the SubtreeLayout of the species it is mapped to, of the kind the model assigns; per species exactly "
    "as many loss (pseudo-gene) branches as the model counts there; a transfer branch's `right` is the transferred child. "
    "tikz.render must contain the same numbers of extant gene / speciation / duplication / transfer / loss nodes and of "
    "transfer arrows, each arrow ending at the layout anchor of the transferred child (4-digit rounding), and loss "
    "markers placed on the trunk side of the species where the loss occurs. The stub asserts one measured box per branch. "
    "Non-trivial reconciliation: contains a loss or a transfer."
)
ASSUMPTIONS = ["stub TeX measurer instead of a TeX engine", "loss location = species skipped by a vertical edge (refmodel/picture.py)"]
BUDGET = {"quick": 900, "thorough": 3000}
KINDNAME = {"S": "SPECIATION", "D": "DUPLICATION", "T": "HORIZONTAL_TRANSFER"}
STUBS = [("hash", 1), ("unit", 0), ("tall", 2), ("wide", 3)]


def plan(tier, seed):
    # quick: <=4 x <=3 leaves plus few-leaved objects on deeper species trees (4-5 leaves: long branches, children on
    # both sides strictly below the child species, transfers between distant clades)
    # ... and 5-leaf chains on two species leaves (up to four events of one kind, e.g. four transfers into one species)
    pairs = (spaces.shape_pairs(4, 3) + spaces.shape_pairs(3, 4, min_sp=4) + spaces.shape_pairs(2, 6, min_sp=5)
             + [(sh, (None, None)) for sh in spaces.chain_shapes(5)] if tier == "quick"
             else spaces.shape_pairs(5, 3) + spaces.shape_pairs(4, 4, min_sp=4) + spaces.shape_pairs(3, 6, min_sp=5))
    out = []
    for osh, ssh in pairs:
        k = max(1, spaces.count_assignments(osh, ssh) // 8)
        for i in range(k):
            out.append({"slice": "P4x3+P3x4+P2x6+P5chainx2" if tier == "quick" else "P5x3+P4x4+P3x6", "osh": osh, "ssh": ssh, "part": (i, k)})
    # operation histories: every ordered pair of distinct valid mappings of one input drawn one after the other on the
    # SAME tree objects (what `draw` sees when it is handed several solutions of one solver run)
    for osh, ssh in (spaces.shape_pairs(3, 3) if tier == "quick" else spaces.shape_pairs(4, 3)):
        k = max(1, spaces.count_assignments(osh, ssh) // 4)
        for i in range(k):
            out.append({"slice": "shared-trees", "mode": "shared", "osh": osh, "ssh": ssh, "part": (i, k)})
    return out


def check_rec(O, S, leafmap, m, evs, labmode, orient, stubspec, seed=0, prebuilt=None, scheme="plain"):
    """None or (subcheck, detail); prebuilt = (rec, onode, snode) when the reconciliation lives on shared trees"""
    lab = None if labmode == "none" else R.labellings_for(O, labmode)
    stub = stubs.install(stubs.Stub(stubspec[0], stubspec[1] + 17 * seed))
    try:
        if prebuilt is not None:
            rec, onode, snode = prebuilt
        else:
            rec, onode, snode, on, sn = R.build_rec(O, S, leafmap, m, lab, scheme=scheme)
        params = DrawParams(orientation=R.ORIENT[orient])
        lay = layout_mod.compute(rec, params)
        code = tikz_mod.render(rec, lay, params)
    except Exception as exc:
        return ("exception", f"{type(exc).__name__}: {exc}\n{traceback.format_exc(limit=6)}")
    oinv = A.inverse(onode)
    sinv = A.inverse(snode)
    seen = {}
    loss_at = {}
    nbranches = 0
    for sp, sl in lay.items():
        s = sinv[sp]
        for g, b in sl.branches.items():
            nbranches += 1
            if isinstance(g, PseudoGene):
                if b.kind != EdgeEvent.FULL_LOSS:
                    return ("loss_kind", f"pseudo gene with kind {b.kind}")
                loss_at[s] = loss_at.get(s, 0) + 1
            else:
                v = oinv.get(g)
                if v is None:
                    return ("foreign_branch", "branch for a gene that is not in the object tree")
                if v in seen:
                    return ("duplicate_branch", f"object node {v} has two branches")
                seen[v] = (s, b)
    if len(stub.calls) != 1 or len(stub.calls[0]) != nbranches:
        return ("measure_protocol", f"measurer called {len(stub.calls)} time(s) with {[len(c) for c in stub.calls]} boxes for {nbranches} branches")
    for v in range(O.n):
        if v not in seen:
            return ("missing_branch", f"object node {v} has no branch in the layout")
        s, b = seen[v]
        if s != m[v]:
            return ("wrong_species", f"object node {v} is drawn in species {s}, it is mapped to {m[v]}")
        want = "LEAF" if not O.children[v] else KINDNAME[evs[v][0]]
        if b.kind.name != want:
            return ("wrong_kind", f"object node {v} drawn as {b.kind.name}, the model says {want}")
        if want == "HORIZONTAL_TRANSFER":
            tc = picture.transferred_child(O, v, evs[v])
            if oinv.get(b.right) != tc:
                return ("transfer_target", f"transfer at node {v}: `right` is node {oinv.get(b.right)}, transferred child is {tc}")
    want_loss = picture.losses_by_species(O, S, m, evs)
    if loss_at != want_loss:
        return ("loss_location", f"losses per species in the layout {sorted(loss_at.items())}, model {sorted(want_loss.items())}")
    # ---- drawing text
    try:
        pre, body, _ = reftext.split_picture(code)
        stmts = reftext.statements(body)
        nodes = [n for n in (reftext.parse_node(s) for s in stmts) if n]
    except Exception as exc:
        return ("unparsable", f"{type(exc).__name__}: {exc}")
    counts = {}
    for n in nodes:
        counts[n["kind"]] = counts.get(n["kind"], 0) + 1
    nev = {"S": 0, "D": 0, "T": 0}
    for e in evs.values():
        nev[e[0]] += 1
    want_counts = {"extant gene": len(O.leaves), "speciation": nev["S"], "duplication": nev["D"],
                   "horizontal gene transfer": nev["T"], "loss": sum(want_loss.values())}
    for k, wv in want_counts.items():
        if counts.get(k, 0) != wv:
            return ("tikz_counts", f"drawing has {counts.get(k, 0)} '{k}' nodes, expected {wv} (all: {counts})")
    arrows = [s for s in stmts if s.startswith("\\path[transfer branch=")]
    if len(arrows) != nev["T"]:
        return ("tikz_arrows", f"drawing has {len(arrows)} transfer arrows, expected {nev['T']}")
    ends = []
    for a in arrows:
        tail = a.rsplit("(", 1)[1].rstrip(") ")
        ends.append(tuple(float(x) for x in tail.split(",")))
    want_ends = []
    for v, e in evs.items():
        if e[0] == "T":
            tc = picture.transferred_child(O, v, e)
            pos = lay[snode[m[tc]]].anchors.get(onode[tc])
            if pos is None:
                return ("missing_anchor", f"transferred child {tc} has no anchor in species {m[tc]}")
            want_ends.append((round(pos.x, 4), round(pos.y, 4)))
    if sorted(ends) != sorted(want_ends):
        return ("arrow_target", f"transfer arrows end at {sorted(ends)}, anchors of the transferred children are {sorted(want_ends)}")
    return None


REUSED = [0]


def shared_pair(O, S, leafmap, m1, m2, orient, stubspec, seed=0, drop_first=False):
    """two different reconciliations of ONE input object (same tree objects, as the outputs of a solver are): draw the
    first, then check the drawing of the second.  drop_first: the first output object is released before the second is
    created, as in `for rec in solutions: draw(rec)` - the second then usually occupies the address of the first"""
    rec1, onode, snode, _, _ = R.build_rec(O, S, leafmap, m1, None)
    inp = rec1.input
    map2 = {onode[v]: snode[x] for v, x in m2.items()}
    rec2 = None if drop_first else ReconciliationOutput(inp, map2)
    stubs.install(stubs.Stub(stubspec[0], stubspec[1] + 17 * seed))
    try:
        params = DrawParams(orientation=R.ORIENT[orient])
        tikz_mod.render(rec1, layout_mod.compute(rec1, params), params)
    except Exception as exc:
        return ("exception", f"first drawing: {type(exc).__name__}: {exc}\n{traceback.format_exc(limit=6)}")
    if drop_first:
        addr = id(rec1)
        del rec1
        rec2 = ReconciliationOutput(inp, map2)
        REUSED[0] += int(id(rec2) == addr)
    evs2 = dtl.events_of(O, S, leafmap, m2)
    bad = check_rec(O, S, leafmap, m2, evs2, "none", orient, stubspec, seed, prebuilt=(rec2, onode, snode))
    if bad:
        return (bad[0], f"after drawing mapping {sorted(m1.items())} of the same input object: " + bad[1])
    return None


def run_shared_shard(shard, seed):
    osh, ssh = shard["osh"], shard["ssh"]
    O, S = T(osh), T(ssh)
    n_eval = vtotal = 0
    viols = []
    samples = []
    for ai, leafmap in enumerate(spaces.assignments(O, S)):
        if ai % shard["part"][1] != shard["part"][0]:
            continue
        maps = [m for m, _ in dtl.valid_mappings(O, S, leafmap)]
        for i, m1 in enumerate(maps):
            for j, m2 in enumerate(maps):
                if i == j:
                    continue
                n_eval += 1
                orient = "VH"[(i + j) % 2]
                stubspec = STUBS[(i + 2 * j) % len(STUBS)]
                for drop in (False, True):
                    if drop:
                        n_eval += 1
                    bad = shared_pair(O, S, leafmap, m1, m2, orient, stubspec, seed, drop_first=drop)
                    case = R.rec_case(osh, ssh, leafmap, m2, first_mapping=sorted(m1.items()), orientation=orient,
                                      stub=list(stubspec), seed=seed, shared=True, drop_first=drop)
                    if bad:
                        vtotal += 1
                        if len(viols) < 6 and not any(v["subcheck"] == bad[0] for v in viols):
                            viols.append({"property": PROP, "subcheck": bad[0], "case": case,
                                          "detail": ("first output object released before the second was created: " if drop else "") + bad[1]})
                    if not samples:
                        samples.append(case)
    reused, REUSED[0] = REUSED[0], 0
    return {"evaluations": n_eval, "nontrivial": n_eval, "samples": samples, "violations": viols, "violations_total": vtotal,
            "counters": {"shared_tree_pairs": n_eval, "second_output_at_address_of_released_first": reused}}


def run_shard(shard, tier, seed):
    if shard.get("mode") == "shared":
        return run_shared_shard(shard, seed)
    osh, ssh = shard["osh"], shard["ssh"]
    O, S = T(osh), T(ssh)
    part = shard["part"]
    n_eval = nt = vtotal = 0
    viols = []
    samples = []
    idx = -1
    last_lm = None
    ai = -1
    for leafmap, m, evs in R.valid_recs(O, S):
        if leafmap != last_lm:
            ai += 1
            last_lm = leafmap
        if ai % part[1] != part[0]:
            continue
        idx += 1
        is_nt = any(e[0] == "T" or e[1] for e in evs.values())
        # the fourth variant draws the unlabelled reconciliation with UNNAMED object ancestors (legal through the API: two
        # lineages then end in nodes of equal name)
        for li, (labmode, scheme) in enumerate((("none", "plain"), ("same", "plain"), ("losses", "plain"), ("none", "unnamed"))):
            for orient in ("V", "H"):
                n_eval += 1
                if is_nt:
                    nt += 1
                stubspec = STUBS[(idx + li) % len(STUBS)]
                bad = check_rec(O, S, leafmap, m, evs, labmode, orient, stubspec, seed, scheme=scheme)
                case = R.rec_case(osh, ssh, leafmap, m, labelling=labmode, orientation=orient, stub=list(stubspec), seed=seed,
                                  scheme=scheme)
                if bad:
                    vtotal += 1
                    if len(viols) < 6 and not any(v["subcheck"] == bad[0] for v in viols):
                        viols.append({"property": PROP, "subcheck": bad[0], "case": case, "detail": bad[1]})
                if not samples and is_nt:
                    samples.append(case)
    return {"evaluations": n_eval, "nontrivial": nt, "samples": samples, "violations": viols, "violations_total": vtotal}


def replay(v):
    c = v["case"]
    O, S, leafmap, m = R.rec_from_case(c)
    if c.get("shared"):
        m1 = {int(k): int(x) for k, x in c["first_mapping"]}
        bad = shared_pair(O, S, leafmap, m1, m, c["orientation"], tuple(c["stub"]), c.get("seed", 0),
                          drop_first=c.get("drop_first", False))
        stubs.restore()
        return {"violated": bool(bad), "detail": (bad[0] + ": " + bad[1]) if bad else None}
    evs = dtl.events_of(O, S, leafmap, m)
    bad = check_rec(O, S, leafmap, m, evs, c["labelling"], c["orientation"], tuple(c["stub"]), c.get("seed", 0),
                    scheme=c.get("scheme", "plain"))
    stubs.restore()
    return {"violated": bool(bad), "detail": (bad[0] + ": " + bad[1]) if bad else None}
