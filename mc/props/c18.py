"""C18 - subsequence masks and segment distances are exact."""
import itertools

import collections
from .. import adapters as A  # noqa: F401
from ..refmodel.graphs import lost_runs_mask
from superrec2.utils.subsequences import subseq_complete, mask_from_subseq, subseq_from_mask, subseq_segment_dist

PROP = "C18"
LEVEL = "exploration"
RULE = (
    "every (child != 0, parent) pair of bit masks up to B bits (B = 11 quick, 13 thorough) x both end modes against an "
    "independent run-counting reference; every sequence 0..n-1 of distinct elements up to length 11 (quick) / 13 (thorough) "
    "and every subsequence of it: mask_from_subseq o subseq_from_mask = id in both directions, subseq_complete = all-ones "
    "mask; element alphabets: ints and strings. Non-trivial mask pair: child contained in parent with >= 1 lost run; "
    "non-trivial subsequence: proper and non-empty."
)
ASSUMPTIONS = ["reference run counter refmodel/graphs.py:lost_runs_mask"]
BUDGET = {"quick": 600, "thorough": 1800}


def plan(tier, seed):
    bits = 11 if tier == "quick" else 13
    out = []
    for nb in range(1, bits + 1):
        # parents of exactly nb bits (top bit set) and all smaller ones are covered by smaller nb
        k = max(1, (1 << nb) // 64)
        for part in range(k):
            out.append({"slice": f"masks<= {bits} bits", "mode": "dist", "nbits": nb, "part": [part, k]})
    maxlen = 11 if tier == "quick" else 13
    for n in range(0, maxlen + 1):
        out.append({"slice": f"subsequences<= {maxlen}", "mode": "subseq", "n": n})
    # operation histories: ONE mutable parent sequence object, rearranged in place between calls (every permutation of
    # its content, in the order of itertools.permutations), every mask queried against each arrangement
    for n in range(1, (6 if tier == "quick" else 7) + 1):
        out.append({"slice": "one buffer permuted in place", "mode": "buffer", "n": n})
    return out


def check_dist(child, parent, edges, nb):
    want = lost_runs_mask(child, parent, edges, nb)
    got = subseq_segment_dist(child, parent, edges)
    if got != want:
        return f"subseq_segment_dist({bin(child)}, {bin(parent)}, edges={edges}) = {got}, expected {want}"
    return None


def check_subseq(n, mask, alphabet):
    parent = [alphabet(i) for i in range(n)]
    sub = [parent[i] for i in range(n) if mask >> i & 1]
    if subseq_complete(parent) != (1 << n) - 1:
        return f"subseq_complete of length {n} = {subseq_complete(parent)}"
    got = subseq_from_mask(mask, parent)
    if list(got) != sub:
        return f"subseq_from_mask({bin(mask)}, {parent}) = {got}, expected {sub}"
    if got is parent:
        return f"subseq_from_mask({bin(mask)}, {parent}) returns the caller's own parent object"
    if isinstance(got, list) and got:
        # the caller edits what it got back, then encodes the edited subsequence against the same parent
        kept = got[1:]
        del got[0]
        first = (mask & -mask)
        if list(parent) != [alphabet(i) for i in range(n)] or mask_from_subseq(kept, parent) != mask & ~first:
            return (f"after deleting the first element of the list returned by subseq_from_mask({bin(mask)}, ...) the parent is "
                    f"{parent} and the shortened subsequence encodes to {bin(mask_from_subseq(kept, parent))}, expected {bin(mask & ~first)}")
    back = mask_from_subseq(sub, parent)
    if back != mask:
        return f"mask_from_subseq({sub}, {parent}) = {bin(back)}, expected {bin(mask)}"
    if mask_from_subseq(tuple(sub), tuple(parent)) != mask:
        return f"mask_from_subseq on tuples differs for {sub}"
    # subsequence and parent given as DIFFERENT kinds of sequence (itertools.combinations yields tuples, JSON yields lists)
    if mask_from_subseq(tuple(sub), parent) != mask or mask_from_subseq(sub, tuple(parent)) != mask:
        return f"mask_from_subseq with a tuple on one side and a list on the other differs for {sub} in {parent}"
    if list(subseq_from_mask(mask, tuple(parent))) != sub:
        return f"subseq_from_mask({bin(mask)}, tuple) = {subseq_from_mask(mask, tuple(parent))}, expected {sub}"
    if n <= 26 and alphabet(0) == 0:
        # one-character strings: the parent as a str, the subsequence as a list of characters, and the other way round
        text = "".join(chr(97 + i) for i in range(n))
        chars = [text[i] for i in range(n) if mask >> i & 1]
        if mask_from_subseq(chars, text) != mask or mask_from_subseq("".join(chars), list(text)) != mask:
            return f"mask_from_subseq with a str on one side and a list of characters on the other differs for {chars} in {text!r}"
        if list(subseq_from_mask(mask, text)) != chars:
            return f"subseq_from_mask({bin(mask)}, {text!r}) = {subseq_from_mask(mask, text)!r}, expected {chars}"
        # a str child against a parent whose elements are strings, some of them the concatenation of two earlier ones
        parent2 = tuple(chr(97 + i) if i % 3 != 2 else chr(97 + i - 2) + chr(97 + i - 1) for i in range(n))
        if not any(mask >> i & 1 for i in range(2, n, 3)):
            child2 = "".join(parent2[i] for i in range(n) if mask >> i & 1)
            if mask_from_subseq(child2, parent2) != mask:
                return f"mask_from_subseq({child2!r}, {parent2}) = {bin(mask_from_subseq(child2, parent2))}, expected {bin(mask)}"
        # sequences that can be indexed by integers but not sliced
        dq = collections.deque(parent)
        try:
            got_dq = list(subseq_from_mask(mask, dq))
            back_dq = mask_from_subseq(collections.deque(sub), dq)
        except Exception as exc:
            return f"deque parent, mask {bin(mask)}: raised {type(exc).__name__}: {exc}"
        if got_dq != sub or back_dq != mask:
            return f"deque parent, mask {bin(mask)}: subseq {got_dq} (expected {sub}), mask back {bin(back_dq)}"
        if mask_from_subseq(range(0), range(n)) != 0 or mask_from_subseq([i for i in range(n) if mask >> i & 1], range(n)) != mask:
            return f"mask_from_subseq against a range parent differs for mask {bin(mask)}"
    return None


def check_buffer(n):
    """-> (bad, evaluations): the same list object holds every arrangement of n distinct elements in turn"""
    import itertools
    buf = list(range(n))
    ev = 0
    for step, perm in enumerate(itertools.permutations(range(n))):
        buf[:] = perm            # in-place edit of the one parent object
        for mask in range(1 << n):
            ev += 1
            sub = [buf[i] for i in range(n) if mask >> i & 1]
            got = subseq_from_mask(mask, buf)
            if list(got) != sub:
                return (f"arrangement #{step} of one list object edited in place, now {buf}: subseq_from_mask({bin(mask)}) = "
                        f"{list(got)}, expected {sub}"), ev
            back = mask_from_subseq(sub, buf)
            if back != mask:
                return (f"arrangement #{step} of one list object edited in place, now {buf}: mask_from_subseq({sub}) = "
                        f"{bin(back)}, expected {bin(mask)}"), ev
    return None, ev


class Opaque:
    """elements told apart by == only: every instance prints the same, has the same hash and no ordering"""

    def __init__(self, key):
        self.key = key

    def __eq__(self, other):
        return isinstance(other, Opaque) and other.key == self.key

    def __hash__(self):
        return 7

    def __repr__(self):
        return "g"


# "list": distinct but unhashable elements (the functions only need ==); "lookalike": 0, "0", 1, "1", ... (distinct under ==,
# pairwise equal under str); "opaque": equal text and hash, distinct under ==
ALPHABETS = {"int": lambda i: i, "str": lambda i: f"g{i}", "rev": lambda i: 100 - i, "list": lambda i: [i, "x"],
             "lookalike": lambda i: (i // 2 if i % 2 == 0 else str(i // 2)), "opaque": Opaque}


def run_shard(shard, tier, seed):
    n_eval = nt = vtotal = 0
    viols = []
    samples = []
    if shard["mode"] == "dist":
        nb = shard["nbits"]
        part, k = shard["part"]
        # masks whose highest set bit (of parent or child) is bit nb-1: each pair visited exactly once overall
        for parent in range(1 << nb):
            if parent % k != part:
                continue
            for child in range(1, 1 << nb):
                if max(parent.bit_length(), child.bit_length()) != nb:
                    continue
                for edges in (True, False):
                    n_eval += 1
                    bad = check_dist(child, parent, edges, nb)
                    if bad:
                        vtotal += 1
                        if len(viols) < 4:
                            viols.append({"property": PROP, "subcheck": "segment_dist", "detail": bad,
                                          "case": {"mode": "dist", "child": child, "parent": parent, "edges": edges, "nbits": nb}})
                    elif child & ~parent == 0 and lost_runs_mask(child, parent, True, nb) >= 1 and edges:
                        nt += 1
            if not samples and parent:
                samples.append({"mode": "dist", "child": 1, "parent": parent, "nbits": nb})
    elif shard["mode"] == "buffer":
        bad, ev = check_buffer(shard["n"])
        n_eval += ev
        nt += ev
        if bad:
            vtotal += 1
            viols.append({"property": PROP, "subcheck": "buffer_history", "detail": bad, "case": {"mode": "buffer", "n": shard["n"]}})
        samples.append({"mode": "buffer", "n": shard["n"]})
    else:
        n = shard["n"]
        for mask in range(1 << n):
            for name, alpha in ALPHABETS.items():
                n_eval += 1
                bad = check_subseq(n, mask, alpha)
                if bad:
                    vtotal += 1
                    if len(viols) < 4:
                        viols.append({"property": PROP, "subcheck": "mask_roundtrip", "detail": bad,
                                      "case": {"mode": "subseq", "n": n, "mask": mask, "alphabet": name}})
                elif 0 < mask < (1 << n) - 1:
                    nt += 1
        samples.append({"mode": "subseq", "n": n, "mask": (1 << n) // 3})
    return {"evaluations": n_eval, "nontrivial": nt, "samples": samples, "violations": viols, "violations_total": vtotal}


def replay(v):
    c = v["case"]
    if c["mode"] == "dist":
        bad = check_dist(c["child"], c["parent"], c["edges"], c["nbits"])
    elif c["mode"] == "buffer":
        bad = check_buffer(c["n"])[0]
    else:
        bad = check_subseq(c["n"], c["mask"], ALPHABETS[c["alphabet"]])
    return {"violated": bool(bad), "detail": bad}
