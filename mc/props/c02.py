"""C02 - ordered super-reconciliation (ext_spfs / base_spfs) returns a minimum-cost solution."""
import os
import sys

from .. import adapters as A
from .. import labelled as L
from .. import spaces
from ..refmodel import ordered, dtl
from ..refmodel.trees import T

PROP = "C02"
LEVEL = "exploration"
ALGOS = ("ext_spfs", "base_spfs")
RULE = (
    "every pair of plane binary shapes within the slice bounds x every leaf assignment x every tuple of ordered "
    "leaf syntenies over the slice's menu (all arrangements of distinct families, tuples taken up to bijective "
    "renaming of families, mutually inconsistent orders kept) x every coherent cost vector of the slice x "
    "{ext_spfs, base_spfs} x {ALL, ANY}; R-root slice: additionally every compatible prescribed root order. "
    "Oracle: Bellman recursion over (species, subsequence) states for every compatible root order "
    "(refmodel.ordered, cross-validated against plain brute force); base_spfs: same with the mapping fixed to the "
    "model's LCA mapping. Non-trivial (input, vector): >= 2 compatible root orders, or the leaves are inconsistent, "
    "or the optimum charges a segmental loss, or it contains a duplication or transfer."
)
ASSUMPTIONS = [
    "reference model refmodel/ordered.py (documented labelling cost), Bellman cross-validated against brute force",
    "cost vectors restricted to spe + 2*sloss <= dup + 2*floss (F-COHERENCE)",
    "ete3 tree container; CPython",
]
BUDGET = {"quick": 900, "thorough": 3300}

EXTRA_VECTORS = [(0, 1, 1, 1, 2), (0, 2, 1, 1, 0), (1, 1, 2, 1, 0), (0, 2, 2, 2, 2), (2, 2, dtl.INF, 2, 2), (0, 1, 2, 1, 0)]


def worker_init():
    sys.stderr = open(os.devnull, "w")


# the three 5-leaf binary shapes up to isomorphism (the tuples of leaf syntenies run over every arrangement anyway)
FIVE_LEAF_SHAPES = [
    (None, (None, (None, (None, None)))),
    ((None, None), (None, (None, None))),
    (((None, None), (None, None)), None),
]


def slices(tier):
    core = [c for c in spaces.CV_CORE if spaces.coherent(c)]
    o3 = spaces.ordered_syntenies(3)
    o2 = spaces.ordered_syntenies(2)
    sub_abc = spaces.subsequence_syntenies(3) + [("b", "a"), ("c", "b"), ("c", "a")]
    quick_menu = [core[0], core[2], core[4], core[7]]
    quick = [
            # + hgt = 0, + full and segmental losses at different prices (either way round)
            ("O3x2x3", spaces.shape_pairs(3, 2), o3, quick_menu + [core[6], (0, 3, 1, 1, 2), (0, 1, 1, 2, 1), (0, 3, 1, 0, 0), (1, 4, 3, 0, 1)], False),   # + free full losses
            ("R-root3x2x2", spaces.shape_pairs(3, 2, min_obj=2), o2, quick_menu[:2], True),
            # 4 object leaves in a chain on one species, leaves holding subsequences of abc: three nested ancestors, a
            # family carried down past a node none of whose leaves has it
            ("O4chainx1x3s", [(sh, None) for sh in spaces.chain_shapes(4)], spaces.subsequence_syntenies(3),
             [core[0], spaces.CV_DISTINCT], False),
            # 5-leaf chains on one species over the syntenies ac / bc / abc / b (an inner gap shared by a whole clade, several
            # compatible root orders), free duplications
            ("O5chainx1x{ac,bc,abc,b}", [(sh, None) for sh in spaces.chain_shapes(5)],
             [("a", "c"), ("b", "c"), ("a", "b", "c"), ("b",)], [(0, 0, 1, 1, 1), core[0]], False),
            # FOUR families (the first size at which a synteny can have a hole with genes on both sides of it): every tuple of
            # subsequences of abcd on 3 object leaves, and the three 5-leaf shapes (up to isomorphism) over {a, d, abd, acd,
            # abcd}, on one species: runs lost across a family the parent lacks, free end runs of partial copies
            ("O3x1x4s", spaces.shape_pairs(3, 1, min_obj=3), spaces.subsequence_syntenies(4), [core[0], core[4]], False),
            ("O5x1x{a,d,abd,acd,abcd}", [(sh, None) for sh in FIVE_LEAF_SHAPES],
             [("a",), ("d",), ("a", "b", "d"), ("a", "c", "d"), ("a", "b", "c", "d")], [core[0]], False),
            # one family, 4 object leaves on 2 and on 4 species leaves, transfers dearer than a duplication plus the losses of
            # one lifted node (yet sometimes cheaper than the cascade of lifted ancestors), spe > dup
            ("O4x2x1/dear-transfer", spaces.shape_pairs(4, 2, min_obj=4, min_sp=2), spaces.ordered_syntenies(1),
             [(0, 1, 6, 1, 1), (2, 0, 3, 1, 0), (0, 1, 4, 1, 1)], False),
            ("O4x4x1/dear-transfer", spaces.shape_pairs(4, 4, min_obj=4, min_sp=4), spaces.ordered_syntenies(1),
             [(0, 1, 6, 1, 1)], False),
            # one family, every 4-leaf object on 3 species leaves at the default prices (transfers to a cousin species)
            ("O4x3x1", spaces.shape_pairs(4, 3, min_obj=4, min_sp=3), spaces.ordered_syntenies(1), [core[0], core[2]], False),
        ]
    if tier == "quick":
        return quick
    full = core + [c for c in EXTRA_VECTORS if spaces.coherent(c)]
    # thorough: everything quick explores that the larger slices below do not subsume, then the larger slices
    return [q for q in quick if q[0] not in ("O3x2x3", "R-root3x2x2")] + [
        ("O3x3x3", spaces.shape_pairs(3, 3), o3, full, False),
        ("O4x3x2", spaces.shape_pairs(4, 3, min_obj=4), o2, core, False),
        ("O4x2x3s", spaces.shape_pairs(4, 2, min_obj=4), sub_abc, core[:5], False),
        ("R-root3x2x3", spaces.shape_pairs(3, 2, min_obj=2), o3, core, True),
    ]


def plan(tier, seed):
    out = []
    for name, pairs, menu, costs, rooted in slices(tier):
        out.extend(L.split_plan(name, pairs, menu, 150, {"costs": costs, "rooted": rooted}))
    # SIX families, loosely constrained: the leaves ab, cd, e, af in every arrangement on the two 4-leaf combs (one species):
    # 120 compatible root orders per input, two of them optimal (thorough: two more such menus)
    # the 4-leaf comb on the 3-leaf species comb, every species used, leaves over {a, c, bc, abc}, segmental losses dearer
    # than full ones: a nested speciation competing with a transfer where the two loss prices must not be confused
    out.extend(L.split_plan("O4combx3combx{a,c,bc,abc}/uneven-losses", [((((None, None), None), None), ((None, None), None))],
                            [("a",), ("c",), ("b", "c"), ("a", "b", "c")], 80,
                            {"costs": [(0, 3, 1, 1, 2)], "rooted": False, "surjective": True}))
    menus = [[("c",), ("b", "d"), ("a", "f"), ("b", "e")]]
    if tier != "quick":
        menus += [[("a", "b"), ("d", "e"), ("d", "f"), ("c",)], [("a", "b"), ("c", "d"), ("e",), ("a", "f")]]
    for menu in menus:
        out.extend(L.split_plan("O4combx1x6 families/120 root orders", [(sh, None) for sh in spaces.chain_shapes(4)[::3]], menu, 4,
                                {"costs": [(0, 1, 1, 1, 1)], "rooted": False, "all_families": 6}))
    # operation histories: one input object per shape pair (ancestors named / unnamed), its leaf assignment, syntenies and
    # costs updated in place from one case to the next; every call is checked against the oracle of the current state
    core = [c for c in spaces.CV_CORE if spaces.coherent(c)]
    o2 = spaces.ordered_syntenies(2)
    for k, (osh, ssh) in enumerate(spaces.shape_pairs(3, 2, min_obj=2) if tier == "quick" else spaces.shape_pairs(3, 3, min_obj=2)):
        out.append({"slice": "session:" + ("O3x2x2" if tier == "quick" else "O3x3x2"), "osh": osh, "ssh": ssh, "menu": o2,
                    "costs": [core[0], core[4]], "rooted": False, "session": True, "unnamed": bool(k % 2)})
        out.append({"slice": "session:" + ("O3x2x2" if tier == "quick" else "O3x3x2") + "+root", "osh": osh, "ssh": ssh, "menu": o2,
                    "costs": [core[0]], "rooted": True, "session": True, "unnamed": bool(k % 2)})
    return out


def check_case(algo, O, S, leafmap, leafsyn, costs, policy, rootsyn=None, orc=None, session=None):
    """None, or (subcheck, detail, trace)"""
    best, keys = orc if orc is not None else L.oracle(algo, O, S, leafmap, leafsyn, costs, rootsyn)
    r = L.run_labelled(algo, O, S, leafmap, leafsyn, costs, policy, rootsyn, session=session)
    if r.error:
        return ("exception", r.error, r.trace)
    if best == dtl.INF:
        if r.sols:
            return ("nonempty_when_impossible", f"{algo}/{policy} returned {len(r.sols)} solution(s) but the model has "
                    f"no valid solution: {L.fmt_sol(*r.sols[0][:2])}", None)
        return None
    if not r.sols:
        return ("empty", f"{algo}/{policy} returned nothing; model minimum is {best}", None)
    for m, lab, ic in r.sols:
        bad = L.validity(algo, O, S, leafmap, leafsyn, m, lab, rootsyn)
        if bad:
            return ("invalid", f"{algo}/{policy}: {bad}; {L.fmt_sol(m, lab)}", None)
        mc = L.model_cost(algo, O, S, leafmap, leafsyn, costs, m, lab)
        if mc != best:
            return ("suboptimal", f"{algo}/{policy} returned cost {mc} (model recount), model minimum {best}; "
                    f"{L.fmt_sol(m, lab)}", None)
        if ic != mc:
            return ("cost_mismatch", f"implementation cost {ic} != model recount {mc}; {L.fmt_sol(m, lab)}", None)
    return None


def nontrivial(O, S, leafmap, leafsyn, costs, rootsyn, best, keys):
    ros = ordered.root_orders(leafsyn, rootsyn)
    if len(ros) != 1:
        return True
    if best == dtl.INF or not keys:
        return True
    mkey, lkey = next(iter(keys))
    m = dict(mkey)
    lab = dict(lkey)
    rl = ordered.costs_of(O, S, leafmap, leafsyn, costs, m, lab)
    if rl and rl[1] > 0:
        return True
    evs = dtl.events_of(O, S, leafmap, m)
    return any(e[0] != "S" for e in evs.values())


def run_shard(shard, tier, seed):
    osh, ssh = shard["osh"], shard["ssh"]
    O, S = T(osh), T(ssh)
    n_eval = n_inputs = nt = vtotal = 0
    viols = []
    samples = []
    counters = {"solver_runs": 0, "inconsistent_inputs": 0}
    sess = A.Session(O, S, labelled=True, unordered=False, unnamed=shard.get("unnamed", False)) if shard.get("session") else None
    for leafmap, leafsyn in L.labelled_inputs(O, S, shard["menu"], shard.get("part")):
        if shard.get("all_families") and len({f for x in leafsyn.values() for f in x}) < shard["all_families"]:
            continue
        if shard.get("surjective") and len(set(leafmap.values())) < len(S.leaves):
            continue
        roots = [None]
        if shard["rooted"]:
            roots = ordered.root_orders(leafsyn)
            if not roots:
                continue
            # a prescribed root may also hold a family that no leaf carries (it only has to be a common supersequence):
            # the first compatible order with the extra family z at the front, in the middle and at the end
            r0 = tuple(roots[0])
            roots = list(roots) + [("z",) + r0, r0[: len(r0) // 2] + ("z",) + r0[len(r0) // 2:], r0 + ("z",)]
        n_inputs += 1
        if not ordered.root_orders(leafsyn):
            counters["inconsistent_inputs"] += 1
        for rootsyn in roots:
            for costs in shard["costs"]:
                for algo in ALGOS:
                    orc = L.oracle(algo, O, S, leafmap, leafsyn, costs, rootsyn)
                    if algo == "ext_spfs" and nontrivial(O, S, leafmap, leafsyn, costs, rootsyn, *orc):
                        nt += 1
                    for policy in ("ALL", "ANY"):
                        n_eval += 1
                        counters["solver_runs"] += 1
                        bad = check_case(algo, O, S, leafmap, leafsyn, costs, policy, rootsyn, orc, session=sess)
                        if bad:
                            vtotal += 1
                            if len(viols) < 8 and not any(v["subcheck"] == bad[0] and v["case"]["algorithm"] == algo
                                                          for v in viols):
                                case = L.case_json(osh, ssh, leafmap, leafsyn, costs, algo, policy, rootsyn)
                                detail = bad[1]
                                if sess is not None:
                                    case["session_shard"] = A.pack(shard)
                                    detail = f"call #{sess.calls} on the shared input object (state updated in place): " + detail
                                viols.append({"property": PROP, "subcheck": ("session_" if sess else "") + bad[0],
                                              "case": case, "detail": detail, "traceback": bad[2]})
        if not samples:
            samples.append(L.case_json(osh, ssh, leafmap, leafsyn, shard["costs"][0], "ext_spfs", "ALL", roots[0]))
    return {"evaluations": n_eval, "inputs": n_inputs, "nontrivial": nt, "samples": samples,
            "violations": viols, "violations_total": vtotal, "counters": counters}


def replay_session(mod, v):
    """a violation found in a session is replayed by running the (deterministic) session again"""
    res = mod.run_shard(A.unpack(v["case"]["session_shard"]), "quick", 0)
    hits = [x for x in res["violations"] if x["subcheck"] == v.get("subcheck")] or res["violations"]
    return {"violated": bool(hits), "detail": (hits[0]["subcheck"] + ": " + hits[0]["detail"]) if hits else None}


def replay(v):
    if v["case"].get("session_shard"):
        import sys as _sys
        return replay_session(_sys.modules[__name__], v)
    case = v["case"]
    osh, ssh, O, S, leafmap, leafsyn, costs, rootsyn = L.case_from_json(case)
    bad = check_case(case["algorithm"], O, S, leafmap, leafsyn, costs, case["policy"], rootsyn)
    return {"violated": bool(bad), "detail": (bad[0] + ": " + bad[1]) if bad else None}
