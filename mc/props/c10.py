"""C10 - the algorithms agree with each other where their models coincide."""
import os
import sys
import traceback

from .. import adapters as A
from .. import labelled as L
from .. import spaces
from ..refmodel import dtl, ordered
from ..refmodel.trees import T, shape_from_json
from superrec2.compute.reconciliation import reconcile_lca, reconcile_thl

PROP = "C10"
LEVEL = "exploration"
INF = dtl.INF
RULE = (
    "every labelled input of the slice whose ordered leaf syntenies are mutually consistent (the same input is handed "
    "to the unordered solvers as family sets and to lca/thl without syntenies) x every coherent cost vector of the menu: "
    "ext_spfs <= base_spfs, superdtl <= base_uspfs, superdtl <= ext_spfs, base_uspfs <= base_spfs, thl <= lca, thl = lca "
    "when hgt = inf; single-family slice (every leaf carries family a, every input of the P-slice): ext_spfs = superdtl "
    "= thl and base_spfs = base_uspfs = lca. All costs are the implementations' own cost() of the returned solutions "
    "(C06 ties those to the model), under both retention policies; the menu contains vectors with hgt < dup and hgt = 0. Non-trivial (input, vector): at least one of the inequalities is strict."
)
ASSUMPTIONS = ["costs compared are the implementations' own cost() values (validated by C06)", "coherent cost region only"]
BUDGET = {"quick": 900, "thorough": 3000}
ALGOS = ("lca", "thl", "base_spfs", "ext_spfs", "base_uspfs", "superdtl")


def worker_init():
    sys.stderr = open(os.devnull, "w")


def plan(tier, seed):
    core = [c for c in spaces.CV_CORE if spaces.coherent(c)]
    # transfers cheaper than duplications (hgt < dup, hgt = 0): the regime in which a mis-priced transfer wins outright
    # instead of through a tie
    cheap_hgt = [(0, 3, 2, 1, 1), (0, 1, 0, 1, 1), (1, 2, 1, 1, 0)]
    # full losses dearer than segmental ones, and all five unit costs pairwise distinct (a table entry that uses the wrong
    # loss cost cannot coincide with the right one)
    uneven = [(0, 1, 1, 2, 1), spaces.CV_DISTINCT]
    assert all(spaces.coherent(c) for c in cheap_hgt + uneven)
    out = []
    o3, o2 = spaces.ordered_syntenies(3), spaces.ordered_syntenies(2)
    if tier == "quick":
        out += L.split_plan("labelled:O3x2x3", spaces.shape_pairs(3, 2), o3, 150, {"mode": "lab", "costs": [core[0], core[2], core[7], cheap_hgt[0]] + uneven})
        # 5 object leaves in a chain on one species, every leaf holding one family or all three (nested INHERIT nodes in
        # the unordered optimum while the ordered optimum is known to be attainable)
        menu5 = [("a",), ("b",), ("c",), ("a", "b"), ("a", "b", "c")]
        out += L.split_plan("labelled:O5chainx1x{a,b,c,ab,abc}", [(sh, None) for sh in spaces.chain_shapes(5)[::7]], menu5, 40,
                            {"mode": "lab", "costs": [core[0]]})      # the two combs
        # 4-leaf chains on one species, every tuple of subsequences of abc (nested leading / trailing losses)
        out += L.split_plan("labelled:O4chainx1x3s", [(sh, None) for sh in spaces.chain_shapes(4)],
                            spaces.subsequence_syntenies(3), 60, {"mode": "lab", "costs": [core[0]]})
        # every 4-leaf object on 3 species leaves, each leaf holding one of two families, transfers at twice the unit price,
        # segmental losses at 2 and at 1 (see C03): the extended unordered optimum must stay below the base and the ordered one
        out += L.split_plan("labelled:O4x3x{a,b}/hgt2", spaces.shape_pairs(4, 3, min_obj=4, min_sp=3), [("a",), ("b",)], 60,
                            {"mode": "lab", "costs": [(0, 2, 2, 1, 2), (0, 1, 2, 1, 1)]})
        for osh, ssh in spaces.shape_pairs(4, 3):
            out.append({"slice": "single-family:P4x3", "mode": "single", "osh": osh, "ssh": ssh, "costs": core[:4] + [core[7]] + cheap_hgt + uneven})
        # operation histories: one plain input object per leaf assignment, its unit costs edited in place between solves
        for osh, ssh in spaces.shape_pairs(3, 3, min_obj=2):
            out.append({"slice": "plain-history:P3x3", "mode": "history", "osh": osh, "ssh": ssh, "session": True})
        # unit costs ten orders of magnitude apart (candidates a few losses apart must not count as tied)
        for osh, ssh in spaces.shape_pairs(3, 3):
            out.append({"slice": "single-family:P3x3/huge", "mode": "single", "osh": osh, "ssh": ssh,
                        "costs": [(0, 10 ** 10, INF, 1, 1), (0, 10 ** 10, 10 ** 10 + 3, 1, 1)]})
        # two cherries on 4 species leaves: the optimum may host the root strictly below the LCA species of both children
        # plain solvers only (thl <= lca) on deep species trees with a transfer twice as dear as a duplication
        for osh, ssh in spaces.shape_pairs(3, 6, min_obj=3, min_sp=6):
            out.append({"slice": "plain:P3x6", "mode": "plain", "osh": osh, "ssh": ssh, "costs": [(0, 1, 2, 1, 1)]})
        # 5 object leaves, one family, general solver against SuperDTL only (a transferred child that is itself an ancestor)
        for osh, ssh in spaces.shape_pairs(5, 3, min_obj=5, min_sp=3):
            out.append({"slice": "single-family:P5x3/thl=superdtl", "mode": "single2", "osh": osh, "ssh": ssh,
                        "costs": [(0, 1, 2, 1, 1)]})
        for ssh in spaces.binary_shapes(4):
            out.append({"slice": "single-family:P4balx4", "mode": "single", "osh": ((None, None), (None, None)), "ssh": ssh,
                        "costs": [core[0], cheap_hgt[0]]})
        return out
    out += L.split_plan("labelled:O3x3x3", spaces.shape_pairs(3, 3), o3, 100, {"mode": "lab", "costs": core + cheap_hgt + uneven})
    out += L.split_plan("labelled:O5chainx1x{a,b,c,ab,abc}", [(sh, None) for sh in spaces.chain_shapes(5)],
                        [("a",), ("b",), ("c",), ("a", "b"), ("a", "b", "c")], 40, {"mode": "lab", "costs": [core[0], core[2]]})
    out += L.split_plan("labelled:O4x3x2", spaces.shape_pairs(4, 3, min_obj=4), o2, 100, {"mode": "lab", "costs": core[:4] + [core[7]] + cheap_hgt[:2]})
    for osh, ssh in spaces.shape_pairs(4, 4):
        out.append({"slice": "single-family:P4x4", "mode": "single", "osh": osh, "ssh": ssh, "costs": core + cheap_hgt + uneven})
    for osh, ssh in spaces.shape_pairs(5, 3, min_obj=5):
        out.append({"slice": "single-family:P5x3", "mode": "single", "osh": osh, "ssh": ssh, "costs": core[:3] + [core[7]] + cheap_hgt[:2]})
    # the quick slices that the larger ones above do not subsume
    keep = ("plain-history:P3x3", "single-family:P3x3/huge", "labelled:O4x3x{a,b}/hgt2", "labelled:O4chainx1x3s", "plain:P3x6", "single-family:P5x3/thl=superdtl")
    out = [sh for sh in plan("quick", seed) if sh["slice"] in keep] + out      # cheap ones first
    return out


def min_costs(O, S, leafmap, leafsyn, costs, policy="ANY", algos=None):
    """-> (dict algo -> implementation minimum cost, error)"""
    res = {}
    for algo in (algos or ALGOS):
        try:
            if algo in ("lca", "thl"):
                inp, _, _ = A.build_input(O, S, leafmap, costs)
                outs = [reconcile_lca(inp)] if algo == "lca" else list(reconcile_thl(inp, A.POLICY[policy]))
                cs = {A.impl_cost(o.cost()) for o in outs}
            else:
                r = L.run_labelled(algo, O, S, leafmap, leafsyn, costs, policy)
                if r.error:
                    return res, r.error
                cs = {c for _, _, c in r.sols}
        except Exception as exc:
            return res, f"{algo} raised {type(exc).__name__}: {exc}\n{traceback.format_exc(limit=5)}"
        if len(cs) != 1:
            return res, f"{algo}/{policy} returned {len(cs)} distinct costs"
        res[algo] = cs.pop()
    return res, None


def relations(res, costs, single):
    """list of violated relations"""
    bad = []
    le = [("ext_spfs", "base_spfs"), ("superdtl", "base_uspfs"), ("superdtl", "ext_spfs"), ("base_uspfs", "base_spfs"), ("thl", "lca")]
    le = [(a, b) for a, b in le if a in res and b in res]
    for a, b in le:
        if not res[a] <= res[b]:
            bad.append(f"{a} = {res[a]} > {b} = {res[b]}")
    if costs[2] == INF and res["thl"] != res["lca"]:
        bad.append(f"hgt = inf but thl = {res['thl']} != lca = {res['lca']}")
    if single:
        if not (res["ext_spfs"] == res["superdtl"] == res["thl"]):
            bad.append(f"single family: ext_spfs = {res['ext_spfs']}, superdtl = {res['superdtl']}, thl = {res['thl']}")
        if not (res["base_spfs"] == res["base_uspfs"] == res["lca"]):
            bad.append(f"single family: base_spfs = {res['base_spfs']}, base_uspfs = {res['base_uspfs']}, lca = {res['lca']}")
    strict = any(res[a] < res[b] for a, b in le)
    return bad, strict


def check(O, S, leafmap, leafsyn, costs, single, plain_only=False):
    strict = False
    if plain_only == "thl_superdtl":
        res, err = min_costs(O, S, leafmap, leafsyn, costs, "ANY", algos=("thl", "superdtl"))
        if err:
            return ("exception", err), False
        if res["thl"] != res["superdtl"]:
            return ("relation", f"single family: thl = {res['thl']}, superdtl = {res['superdtl']}"), True
        return None, res["thl"] > 0
    for policy in ("ANY", "ALL"):
        res, err = min_costs(O, S, leafmap, leafsyn, costs, policy, algos=("lca", "thl") if plain_only else None)
        if err:
            return ("exception", err), False
        bad, strict = relations(res, costs, single and not plain_only)
        if bad:
            return ("relation", f"policy {policy}: " + "; ".join(bad)), strict
    return None, strict


HISTORY = [(0, 1, 1, 1, 1), (0, 1, 5, 1, 1), (0, 1, INF, 1, 1), (0, 2, 1, 1, 1), (0, 1, INF, 1, 1)]


def check_history(O, S, leafmap):
    """ONE plain input object; its unit costs are edited in place through HISTORY (cheap transfer first, then dear, then
    forbidden, ...); after every edit thl <= lca, with equality when transfers are forbidden, under both policies, and the
    values must be those a fresh input gives.  -> (bad, strict)"""
    inp, _, _ = A.build_input(O, S, leafmap, HISTORY[0])
    strict = False
    for step, costs in enumerate(HISTORY):
        inp.costs.update(A.cost_dict(costs))
        fresh, _, _ = A.build_input(O, S, leafmap, costs)
        try:
            lca_c = A.impl_cost(reconcile_lca(inp).cost())
            for policy in ("ANY", "ALL"):
                got = {A.impl_cost(o.cost()) for o in reconcile_thl(inp, A.POLICY[policy])}
                want = {A.impl_cost(o.cost()) for o in reconcile_thl(fresh, A.POLICY[policy])}
                if len(got) != 1 or got != want:
                    return ("history", f"step {step}, costs {A.costs_to_json(costs)} set in place on one input object, thl/{policy} "
                                       f"returns costs {sorted(got, key=str)}; a fresh input gives {sorted(want, key=str)}"), strict
                c = next(iter(got))
                if not c <= lca_c or (costs[2] == INF and c != lca_c):
                    return ("history", f"step {step}, costs {A.costs_to_json(costs)} set in place: thl/{policy} = {c}, lca = {lca_c}"), strict
                strict = strict or c < lca_c
        except Exception as exc:
            return ("exception", f"step {step}: {type(exc).__name__}: {exc}\n{traceback.format_exc(limit=5)}"), strict
    return None, strict


def run_shard(shard, tier, seed):
    osh, ssh = shard["osh"], shard["ssh"]
    O, S = T(osh), T(ssh)
    n_eval = n_inputs = nt = vtotal = 0
    viols = []
    samples = []
    if shard["mode"] == "history":
        for leafmap in spaces.assignments(O, S):
            n_inputs += 1
            n_eval += len(HISTORY)
            bad, strict = check_history(O, S, leafmap)
            nt += 1 if strict else 0
            case = dict(L.case_json(osh, ssh, leafmap, {}, HISTORY[0]), history=True)
            if bad:
                vtotal += 1
                if len(viols) < 4 and not any(v["subcheck"] == bad[0] for v in viols):
                    viols.append({"property": PROP, "subcheck": bad[0], "case": case, "detail": bad[1]})
            if not samples:
                samples.append(case)
        return {"evaluations": n_eval, "inputs": n_inputs, "nontrivial": nt, "samples": samples, "violations": viols,
                "violations_total": vtotal, "counters": {"history_steps": n_eval}}
    if shard["mode"] == "lab":
        gen = ((lm, ls) for lm, ls in L.labelled_inputs(O, S, shard["menu"], shard.get("part")) if ordered.root_orders(ls))
        single = False
    else:
        gen = ((lm, {v: ("a",) for v in O.leaves}) for lm in spaces.assignments(O, S))
        single = True
    plain_only = "thl_superdtl" if shard["mode"] == "single2" else shard["mode"] == "plain"
    for leafmap, leafsyn in gen:
        n_inputs += 1
        for costs in shard["costs"]:
            n_eval += 1
            bad, strict = check(O, S, leafmap, leafsyn, costs, single, plain_only)
            if strict:
                nt += 1
            case = dict(L.case_json(osh, ssh, leafmap, leafsyn, costs), single_family=single, plain_only=plain_only)
            if bad:
                vtotal += 1
                if len(viols) < 6 and not any(v["subcheck"] == bad[0] for v in viols):
                    viols.append({"property": PROP, "subcheck": bad[0], "case": case, "detail": bad[1]})
            if not samples:
                samples.append(case)
    return {"evaluations": n_eval, "inputs": n_inputs, "nontrivial": nt, "samples": samples, "violations": viols,
            "violations_total": vtotal, "counters": {"solver_runs": n_eval * (2 if plain_only else len(ALGOS)) * 2}}


def replay(v):
    case = v["case"]
    osh, ssh, O, S, leafmap, leafsyn, costs, rootsyn = L.case_from_json(case)
    if case.get("history"):
        bad, _ = check_history(O, S, leafmap)
        return {"violated": bool(bad), "detail": (bad[0] + ": " + bad[1]) if bad else None}
    bad, _ = check(O, S, leafmap, leafsyn, costs, case.get("single_family", False), case.get("plain_only", False))
    return {"violated": bool(bad), "detail": (bad[0] + ": " + bad[1]) if bad else None}
