"""C19 - topological orderings are enumerated completely and without repetition."""
import itertools

from .. import adapters as A  # noqa: F401
from .. import spaces
from ..refmodel.graphs import topo_orders
from superrec2.utils.toposort import toposort, toposort_all
from superrec2.compute.super_reconciliation import _make_prec_graph

PROP = "C19"
LEVEL = "exploration"
RULE = (
    "every directed graph on <= 4 vertices, self-loops included (2^(n^2) graphs per n, 66 067 in total), given as a "
    "dict vertex -> successor set; every loop-free digraph on 5 vertices with <= 5 edges (quick) / all 2^20 of them (thorough); every "
    "loop-free digraph on 6 and 7 vertices with <= 2 (thorough <= 3) edges (up to 5040 orderings each); plus the "
    "precedence graphs built by the ordered solver for every tuple of <= 3 ordered leaf syntenies over 3 families "
    "(thorough: <= 4 leaves). toposort_all must equal the permutation filter as a multiset (no repetition, none if "
    "cyclic), toposort must return a member iff the set is non-empty. Vertex names: ints for the raw graphs (up to 4 vertices also frozensets and a None / 0 / '' / () mix), strings for "
    "precedence graphs. Non-trivial graph: acyclic with >= 2 orderings, or cyclic with >= 1 edge."
)
ASSUMPTIONS = ["permutation-filter reference refmodel/graphs.py:topo_orders"]
BUDGET = {"quick": 600, "thorough": 1800}


def plan(tier, seed):
    out = []
    for n in range(0, 5):
        pairs = n * n
        k = max(1, (1 << pairs) // 2048)
        for part in range(k):
            out.append({"slice": "digraphs<=4", "mode": "graph", "n": n, "part": [part, k]})
    if tier == "thorough":
        for part in range(512):
            out.append({"slice": "digraphs5-loopfree-all", "mode": "graph5bits", "part": [part, 512]})
    else:
        for ne in range(0, 6):
            out.append({"slice": "digraphs5-loopfree<=5edges", "mode": "graph5", "edges": ne})
    # sparse graphs on 6 and 7 vertices: the many-orderings end of the domain (720 ... 5040 orderings per graph)
    for n in (6, 7):
        for ne in range(0, (3 if tier == "quick" else 4)):
            npairs = n * (n - 1)
            k = 1 if ne < 2 else (8 if ne == 2 else 64)
            for part in range(k):
                out.append({"slice": "digraphs6..7-sparse", "mode": "sparse", "n": n, "edges": ne, "part": [part, k]})
    for nleaves in range(1, (3 if tier == "quick" else 4) + 1):
        out.append({"slice": "precedence-graphs", "mode": "prec", "nleaves": nleaves})
    # operation history: ONE dict object holds a graph on 3 vertices, is sorted, re-wired IN PLACE into every other graph with
    # the same number of edges (self-loops included), and sorted again
    for part in range(16):
        out.append({"slice": "rewired-in-place(3 vertices)", "mode": "rewire", "part": [part, 16], "session": True})
    return out


LABELS = (
    (frozenset({1}), frozenset({2}), frozenset({3}), frozenset({1, 2})),     # `<` is a partial order on these
    (None, 0, "", ()),                                                        # falsy, None, mutually unorderable
)
UNLABEL = {labels: {x: i for i, x in enumerate(labels)} for labels in LABELS}


def check_graph(vertices, succ):
    g = {v: set(succ.get(v, ())) for v in vertices}
    want = sorted(topo_orders(vertices, g))
    try:
        got = toposort_all({v: set(s) for v, s in g.items()})
        one = toposort({v: set(s) for v, s in g.items()})
    except Exception as exc:
        return f"raised {type(exc).__name__}: {exc} on {g}", len(want)
    gl = sorted(tuple(x) for x in got)
    if gl != want:
        return f"toposort_all({g}) returned {len(got)} orderings ({len(set(gl))} distinct), expected {len(want)}: got {gl[:3]} want {want[:3]}", len(want)
    if (one is None) != (not want):
        return f"toposort({g}) = {one}, but {len(want)} orderings exist", len(want)
    if one is not None and tuple(one) not in set(want):
        return f"toposort({g}) = {one} is not a topological ordering", len(want)
    # the same graph with vertex labels that are hashable but not totally ordered by `<` (sets), and with labels that are falsy
    # or None / of mixed types: only hashing and equality may be relied on
    if len(vertices) <= 4:
        for labels in LABELS:
            ren = {v: labels[i] for i, v in enumerate(vertices)}
            back = {id(x): v for v, x in ren.items()}
            h = {ren[v]: {ren[w] for w in s_} for v, s_ in g.items()}
            try:
                got2 = toposort_all(h)
                one2 = toposort({k: set(x) for k, x in h.items()})
                gl2 = sorted(tuple(UNLABEL[labels][x] for x in o) for o in got2)
                one2i = None if one2 is None else tuple(UNLABEL[labels][x] for x in one2)
            except Exception as exc:
                return f"vertex labels {list(labels)[:len(vertices)]}: raised {type(exc).__name__}: {exc} on {g}", len(want)
            wanti = sorted(tuple(vertices.index(x) for x in o) for o in want)
            if gl2 != wanti:
                return (f"vertex labels {list(labels)[:len(vertices)]}: toposort_all returned {len(gl2)} orderings "
                        f"({len(set(gl2))} distinct), expected {len(wanti)} on {g}"), len(want)
            if (one2i is None) != (not wanti) or (one2i is not None and one2i not in set(wanti)):
                return f"vertex labels {list(labels)[:len(vertices)]}: toposort = {one2} on {g}; {len(wanti)} orderings exist", len(want)
    # operation history on ONE graph object (vertices in reverse key order, two vertices sharing one successor-set object
    # when they have equal successors): single ordering, all orderings, single ordering again; the graph must be left
    # untouched and every answer must be the same as on a fresh copy
    shared = {}
    h = {}
    for v in sorted(g, reverse=True):
        key = tuple(sorted(g[v]))
        h[v] = shared.setdefault(key, set(g[v]))
    before = {v: set(s) for v, s in h.items()}
    try:
        one1 = toposort(h)
        all0 = toposort_all(h)
        for o in all0:          # the caller consumes the first answer destructively ...
            o.reverse()
            if o:
                o.pop()
        all1 = toposort_all(h)  # ... and asks again
        one2 = toposort(h)
    except Exception as exc:
        return f"raised {type(exc).__name__}: {exc} on the second use of one graph object {g}", len(want)
    if {v: set(s) for v, s in h.items()} != before:
        return f"the caller's graph {before} was modified into {h}", len(want)
    if sorted(tuple(x) for x in all1) != want:
        return f"toposort_all after toposort on the same graph object {g}: {len(all1)} orderings, expected {len(want)}", len(want)
    for tag, o in (("first", one1), ("second", one2)):
        if (o is None) != (not want) or (o is not None and tuple(o) not in set(want)):
            return f"{tag} toposort on one graph object {g} = {o}; valid orderings: {want[:3]}", len(want)
    return None, len(want)


def graph_from_bits(n, bits):
    V = list(range(n))
    succ = {v: [] for v in V}
    i = 0
    for a in V:
        for b in V:
            if bits >> i & 1:
                succ[a].append(b)
            i += 1
    return V, succ


def run_shard(shard, tier, seed):
    n_eval = nt = vtotal = 0
    viols = []
    samples = []

    def handle(V, succ, tag):
        nonlocal n_eval, nt, vtotal
        n_eval += 1
        bad, nwant = check_graph(V, succ)
        nedges = sum(len(s) for s in succ.values())
        if nwant >= 2 or (nwant == 0 and nedges):
            nt += 1
        if bad:
            vtotal += 1
            if len(viols) < 4:
                viols.append({"property": PROP, "subcheck": tag, "detail": bad,
                              "case": {"vertices": list(V), "succ": [[v, sorted(succ.get(v, ()))] for v in V]}})
        if not samples and nedges:
            samples.append({"vertices": list(V), "succ": [[v, sorted(succ.get(v, ()))] for v in V]})

    if shard["mode"] == "graph" and shard["n"] == 1 and shard["part"][0] == 0:
        handle([], {}, "digraph")      # the null graph: exactly one (empty) ordering
    if shard["mode"] == "graph":
        n = shard["n"]
        part, k = shard["part"]
        for bits in range(part, 1 << (n * n), k):
            V, succ = graph_from_bits(n, bits)
            handle(V, succ, "digraph")
    elif shard["mode"] == "graph5":
        V = list(range(5))
        pairs = [(a, b) for a in V for b in V if a != b]
        for edges in itertools.combinations(pairs, shard["edges"]):
            succ = {v: [] for v in V}
            for a, b in edges:
                succ[a].append(b)
            handle(V, succ, "digraph5")
    elif shard["mode"] == "sparse":
        V = list(range(shard["n"]))
        pairs = [(a, b) for a in V for b in V if a != b]
        part, k = shard["part"]
        for i, edges in enumerate(itertools.combinations(pairs, shard["edges"])):
            if i % k != part:
                continue
            succ = {v: [] for v in V}
            for a, b in edges:
                succ[a].append(b)
            handle(V, succ, "digraph_sparse")
    elif shard["mode"] == "rewire":
        part, k = shard["part"]
        n = 3
        by_edges = {}
        for bits in range(1 << (n * n)):
            by_edges.setdefault(bin(bits).count("1"), []).append(bits)
        idx = 0
        for ne, group in sorted(by_edges.items()):
            for b1 in group:
                idx += 1
                if idx % k != part:
                    continue
                V, s1 = graph_from_bits(n, b1)
                g = {v: set(s1[v]) for v in V}          # the one dict object of this history
                try:
                    toposort(g)
                    toposort_all(g)
                    for b2 in group:
                        if b2 == b1:
                            continue
                        _, s2 = graph_from_bits(n, b2)
                        for v in V:
                            g[v].clear()
                            g[v].update(s2[v])
                        n_eval += 1
                        nt += 1
                        want = sorted(topo_orders(V, {v: set(s2[v]) for v in V}))
                        one = toposort(g)
                        allo = sorted(tuple(o) for o in toposort_all(g))
                        bad = None
                        if allo != want:
                            bad = f"toposort_all gives {len(allo)} orderings, expected {len(want)}"
                        elif (one is None) != (not want) or (one is not None and tuple(one) not in set(want)):
                            bad = f"toposort = {one}, {len(want)} orderings exist"
                        elif {v: set(x) for v, x in g.items()} != {v: set(s2[v]) for v in V}:
                            bad = "the caller's graph was modified"
                        if bad:
                            vtotal += 1
                            if len(viols) < 4:
                                viols.append({"property": PROP, "subcheck": "rewired_history",
                                              "detail": f"one dict object first held {s1}, was re-wired in place to {s2}: {bad}",
                                              "case": {"vertices": V, "succ": [[v, sorted(s2[v])] for v in V], "first": [[v, sorted(s1[v])] for v in V]}})
                            break
                except Exception as exc:
                    vtotal += 1
                    if len(viols) < 4:
                        viols.append({"property": PROP, "subcheck": "rewired_history", "detail": f"raised {type(exc).__name__}: {exc}",
                                      "case": {"vertices": V, "succ": [[v, sorted(s1[v])] for v in V]}})
        samples.append({"mode": "rewire", "vertices": 3})
    elif shard["mode"] == "graph5bits":
        V = list(range(5))
        pairs = [(a, b) for a in V for b in V if a != b]
        part, k = shard["part"]
        for bits in range(part, 1 << 20, k):
            succ = {v: [] for v in V}
            for i, (a, b) in enumerate(pairs):
                if bits >> i & 1:
                    succ[a].append(b)
            handle(V, succ, "digraph5")
    else:
        menu = spaces.ordered_syntenies(3)
        class _K:  # stand-in leaf keys: the builder only iterates the mapping's values
            pass
        for tup in spaces.synteny_tuples(shard["nleaves"], menu):
            g = _make_prec_graph({i: list(s) for i, s in enumerate(tup)})
            V = sorted(g)
            handle(V, {v: sorted(g[v]) for v in V}, "precedence")
    return {"evaluations": n_eval, "nontrivial": nt, "samples": samples, "violations": viols, "violations_total": vtotal}


def replay(v):
    c = v["case"]
    if c.get("first"):
        V = c["vertices"]
        g = {a: set(b) for a, b in c["first"]}
        toposort(g)
        toposort_all(g)
        s2 = {a: set(b) for a, b in c["succ"]}
        for x in V:
            g[x].clear()
            g[x].update(s2[x])
        want = sorted(topo_orders(V, {x: set(s2[x]) for x in V}))
        one = toposort(g)
        allo = sorted(tuple(o) for o in toposort_all(g))
        badv = allo != want or (one is None) != (not want) or (one is not None and tuple(one) not in set(want))
        return {"violated": badv, "detail": f"after re-wiring in place: toposort = {one}, toposort_all gives {len(allo)}, expected {len(want)}" if badv else None}
    succ = {a: list(b) for a, b in c["succ"]}
    bad, _ = check_graph(c["vertices"], succ)
    return {"violated": bool(bad), "detail": bad}
