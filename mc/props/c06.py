"""C06 - the cost evaluator implements the documented event model.

Every model trace (valid species mapping, with every ordered / unordered
labelling) is loaded into a real (Super)ReconciliationOutput and evaluated by
the real node_event / cost routines; model recount and implementation must
agree on every one (DESIGN 5.2: model traces replayed against the implementation).
"""
import itertools
import json
import os
import sys

from .. import adapters as A
from .. import labelled as L
from .. import spaces
from .. import cli_driver
from ..refmodel import dtl, ordered, unordered
from ..refmodel.trees import T, shape_from_json

PROP = "C06"
LEVEL = "model_checking"
INF = dtl.INF
RULE = (
    "states = valid (species mapping[, labelling]) solutions enumerated by the reference model, independently of the "
    "package: every valid mapping of every input of the P-slice (unlabelled); every valid mapping x every ordered "
    "labelling (root = abc or ab, every other node any non-empty subsequence of its parent's, leaves included) and "
    "every valid unordered labelling over <= 3 families on the small labelled slice; transitions = (state, cost "
    "vector) evaluations over a 12-vector menu containing incoherent vectors, zeros and hgt=inf. Each state is "
    "replayed on the implementation: node_event of every node, reconciliation_cost, labeling_cost, cost must equal "
    "the model recount. CLI clause: in-process `superrec2 reconcile` on a sub-slice, printed minimum = model cost of "
    "every written object. Non-trivial state: contains a loss, a duplication or a transfer, or a non-zero labelling cost."
)
ASSUMPTIONS = [
    "documented event model as written in refmodel/dtl.py, ordered.py, unordered.py",
    "ete3 tree container; the in-process CLI driver (validated against real subprocess runs in C12)",
]
BUDGET = {"quick": 900, "thorough": 3000}

MENU12 = [
    (0, 1, 1, 1, 1), (1, 1, 1, 1, 1), (1, 3, 5, 2, 2), (5, 0, 3, 1, 1), (0, 0, 0, 0, 0), (2, 0, 0, 1, 0),
    (3, 1, 4, 1, 0), (0, 1, INF, 1, 1), (1, 2, 0, 0, 3), (0, 1, 1, 0, 2), (7, 2, 3, 5, 11), (0, 0, INF, 2, 1),
]
EVNAME = {"S": "SPECIATION", "D": "DUPLICATION", "T": "HORIZONTAL_TRANSFER"}


def worker_init():
    sys.stderr = open(os.devnull, "w")


def plan(tier, seed):
    out = []
    if tier == "quick":
        # few object nodes on deep species trees: every (node, left child, right child) placement over all species
        # trees with <= 6 leaves (long vertical branches, transfers across distant clades), then wider objects
        ppairs = spaces.shape_pairs(4, 3) + spaces.shape_pairs(2, 6, min_sp=4) + spaces.shape_pairs(3, 5, min_obj=3, min_sp=4)
        lpairs = spaces.shape_pairs(3, 2) + spaces.shape_pairs(2, 4, min_sp=3)
        upairs = spaces.shape_pairs(3, 3) + spaces.shape_pairs(2, 4, min_sp=4)
    else:
        ppairs = (spaces.shape_pairs(4, 4) + spaces.shape_pairs(5, 3, min_obj=5) + spaces.shape_pairs(2, 7, min_sp=5)
                  + spaces.shape_pairs(3, 6, min_obj=3, min_sp=5) + spaces.shape_pairs(4, 5, min_obj=4, min_sp=5))
        lpairs = spaces.shape_pairs(3, 3) + spaces.shape_pairs(4, 2, min_obj=4) + spaces.shape_pairs(2, 6, min_sp=4)
        upairs = spaces.shape_pairs(3, 3) + spaces.shape_pairs(4, 2, min_obj=4) + spaces.shape_pairs(2, 6, min_sp=4) \
            + spaces.shape_pairs(3, 4, min_obj=3, min_sp=4)
    for osh, ssh in ppairs:
        out.append({"slice": "unlabelled", "mode": "plain", "osh": osh, "ssh": ssh})
    for osh, ssh in lpairs:
        n = spaces.shape_leaves(osh)
        roots = [("a", "b", "c"), ("a", "b")] if n <= 3 else [("a", "b", "c")]
        for root in roots:
            k = spaces.count_assignments(osh, ssh)
            for i in range(k):
                out.append({"slice": "ordered", "mode": "ordered", "osh": osh, "ssh": ssh, "root": root, "asg": i})
    for osh, ssh in upairs:
        nf = 3 if spaces.shape_leaves(osh) <= 3 or tier == "quick" else 3
        out += L.split_plan("unordered", [(osh, ssh)], spaces.unordered_syntenies(nf), 60, {"mode": "unordered"})
    for osh, ssh in spaces.shape_pairs(3, 2):
        out.append({"slice": "cli", "mode": "cli", "osh": osh, "ssh": ssh})
    return out


def compare_plain(O, S, leafmap, m, evs, menu):
    """replay one model state on the implementation; None or (subcheck, detail, costs)"""
    out, onode, snode = A.build_output(O, S, leafmap, menu[0], m)
    for v in O.internal:
        got = out.node_event(onode[v]).name
        if got != EVNAME[evs[v][0]]:
            return ("node_event", f"node {v}: implementation says {got}, model says {EVNAME[evs[v][0]]} "
                    f"(mapping {sorted(m.items())})", menu[0])
    for v in O.leaves:
        if out.node_event(onode[v]).name != "LEAF":
            return ("node_event", f"leaf {v}: {out.node_event(onode[v]).name}", menu[0])
    for costs in menu:
        out.input.costs.clear()
        out.input.costs.update(A.cost_dict(costs))
        want = dtl.cost_of_events(evs, costs[:4])
        got = A.impl_cost(out.cost())
        if got != want:
            return ("cost", f"cost() = {got}, model recount {want} (mapping {sorted(m.items())})", costs)
    return None


def compare_labelled(O, S, leafmap, leafsyn, m, lab, is_ord, menu):
    out, onode, snode = A.build_super_output(O, S, leafmap, menu[0], leafsyn, m, lab, is_ord)
    mod = ordered if is_ord else unordered
    for costs in menu:
        out.input.costs.clear()
        out.input.costs.update(A.cost_dict(costs))
        rl = mod.costs_of(O, S, leafmap, leafsyn, costs, m, lab)
        if rl is None:
            return ("harness", "model rejects a labelling it enumerated", costs)
        try:
            rc, lc, tc = A.impl_cost(out.reconciliation_cost()), A.impl_cost(out.labeling_cost()), A.impl_cost(out.cost())
        except Exception as exc:
            return ("exception", f"{type(exc).__name__}: {exc}; {L.fmt_sol(m, lab)}", costs)
        if (rc, lc, tc) != (rl[0], rl[1], rl[0] + rl[1]):
            return ("labelled_cost", f"(reconciliation, labelling, total) = {(rc, lc, tc)}, model recount "
                    f"{(rl[0], rl[1], rl[0] + rl[1])}; {L.fmt_sol(m, lab)}", costs)
    return None


def ordered_labellings(O, root):
    """root = given order; every other node any non-empty subsequence of its parent's label"""
    pre = O.order_pre()

    def rec(i, lab):
        if i == len(pre):
            yield dict(lab)
            return
        v = pre[i]
        if O.parent[v] is None:
            lab[v] = tuple(root)
            yield from rec(i + 1, lab)
            del lab[v]
            return
        for s in ordered.subseqs(lab[O.parent[v]]):
            if s:
                lab[v] = s
                yield from rec(i + 1, lab)
                del lab[v]

    yield from rec(0, {})


def nontrivial_events(evs):
    return any(e[0] != "S" or e[1] for e in evs.values())


def run_shard(shard, tier, seed):
    osh, ssh = shard["osh"], shard["ssh"]
    O, S = T(osh), T(ssh)
    states = trans = nt = vtotal = 0
    viols = []
    samples = []
    counters = {}

    def report(bad, case):
        nonlocal vtotal
        vtotal += 1
        if len(viols) < 6 and not any(v["subcheck"] == bad[0] for v in viols):
            case = dict(case)
            case["costs"] = A.costs_to_json(bad[2]) if bad[2] else None
            viols.append({"property": PROP, "subcheck": bad[0], "case": case, "detail": bad[1]})

    mode = shard["mode"]
    if mode == "plain":
        for leafmap in spaces.assignments(O, S):
            for m, evs in dtl.valid_mappings(O, S, leafmap):
                states += 1
                trans += len(MENU12)
                if nontrivial_events(evs):
                    nt += 1
                bad = compare_plain(O, S, leafmap, m, evs, MENU12)
                case = {"mode": "plain", "object_shape": osh, "species_shape": ssh,
                        "leaf_object_species": sorted(leafmap.items()), "mapping": sorted(m.items())}
                if bad:
                    report(bad, case)
                if not samples:
                    samples.append(case)
    elif mode == "ordered":
        asgs = list(spaces.assignments(O, S))
        leafmap = asgs[shard["asg"]]
        root = shard["root"]
        maps = list(dtl.valid_mappings(O, S, leafmap))
        for lab in ordered_labellings(O, root):
            leafsyn = {v: lab[v] for v in O.leaves}
            for m, evs in maps:
                states += 1
                trans += len(MENU12)
                rl = ordered.costs_of(O, S, leafmap, leafsyn, MENU12[0], m, lab)
                if nontrivial_events(evs) or rl[1]:
                    nt += 1
                bad = compare_labelled(O, S, leafmap, leafsyn, m, lab, True, MENU12)
                case = {"mode": "ordered", "object_shape": osh, "species_shape": ssh,
                        "leaf_object_species": sorted(leafmap.items()), "mapping": sorted(m.items()),
                        "labelling": sorted((k, list(x)) for k, x in lab.items())}
                if bad:
                    report(bad, case)
                if not samples:
                    samples.append(case)
    elif mode == "unordered":
        for leafmap, leafsyn in L.labelled_inputs(O, S, shard["menu"], shard.get("part")):
            maps = list(dtl.valid_mappings(O, S, leafmap))
            for lab in unordered.labellings(O, leafsyn):
                for m, evs in maps:
                    states += 1
                    trans += len(MENU12)
                    rl = unordered.costs_of(O, S, leafmap, leafsyn, MENU12[0], m, lab)
                    if nontrivial_events(evs) or rl[1]:
                        nt += 1
                    bad = compare_labelled(O, S, leafmap, leafsyn, m, lab, False, MENU12)
                    case = {"mode": "unordered", "object_shape": osh, "species_shape": ssh,
                            "leaf_object_species": sorted(leafmap.items()), "mapping": sorted(m.items()),
                            "labelling": sorted((k, sorted(x)) for k, x in lab.items())}
                    if bad:
                        report(bad, case)
                    if not samples:
                        samples.append(case)
    else:
        r = run_cli_shard(O, S, osh, ssh, report)
        states, trans, nt, samples = r
        counters["cli_runs"] = trans
    return {"evaluations": trans, "states": states, "transitions": trans, "traces": states, "nontrivial": nt,
            "samples": samples, "violations": viols, "violations_total": vtotal, "counters": counters}


# ----------------------------------------------------------------------------- CLI clause
CLI_ALGOS = ("lca", "thl", "exh", "base_spfs", "ext_spfs", "base_uspfs", "superdtl")
CLI_COSTS = [(0, 1, 1, 1, 1), (1, 2, 1, 1, 0), (0, 1, INF, 1, 1), (0, 1.5, 1, 0.25, 0.75)]   # the last one: non-integer optimum


def cli_input_json(O, S, leafmap, leafsyn, onames, snames):
    d = {"object_tree": O.newick(onames), "species_tree": S.newick(snames),
         "leaf_object_species": {onames[v]: snames[s] for v, s in leafmap.items()}}
    if leafsyn is not None:
        d["leaf_syntenies"] = {onames[v]: list(s) for v, s in leafsyn.items()}
    return d


def check_cli(O, S, leafmap, leafsyn, algo, policy, costs):
    """None or (subcheck, detail, costs)"""
    onames = {v: (f"s{leafmap[v]}_{v}" if not O.children[v] else f"n{v}") for v in range(O.n)}
    snames = A.default_names(S, "s")
    partial = len(O.internal) >= 2 and sum(leafmap.values()) % 2 == 1
    if partial:
        # a partially labelled object tree: the LAST ancestor (pre-order) already carries the automatic-looking name O0, the
        # others carry none and are named by the tool; the written names are then read back through the written tree
        onames = {v: (onames[v] if not O.children[v] else ("O0" if v == O.internal[-1] else "")) for v in range(O.n)}
    data = cli_input_json(O, S, leafmap, leafsyn, onames, snames)
    argv = ["reconcile", "--solutions", policy.lower()] + cli_driver.cost_args(costs) + [algo]
    status, out, err, _ = cli_driver.run_cli(argv, json.dumps(data))
    if status != 0:
        return ("cli_status", f"exit status {status}; stderr: {err[-300:]}", costs)
    printed = cli_driver.parse_min_cost(err)
    lines = [ln for ln in out.splitlines() if ln.strip()]
    if printed is None or not lines:
        return ("cli_output", f"no 'Minimum cost:' line or no output; stderr: {err[-200:]}", costs)
    oid = {n: v for v, n in onames.items()}
    sid = {n: v for v, n in snames.items()}
    for ln in lines:
        obj = json.loads(ln)
        if partial:
            from ete3 import Tree as _Tree
            written = _Tree(obj["input"]["object_tree"], format=1)
            by_clade = {frozenset(onames[x] for x in O.leaves_under(v)): v for v in range(O.n)}
            oid = {}
            for node in written.traverse():
                v = by_clade.get(frozenset(l.name for l in node.iter_leaves()))
                if v is None or not node.name or node.name in oid:
                    return ("cli_names", f"written object tree {obj['input']['object_tree']} has a missing, repeated or foreign node name",
                            costs)
                oid[node.name] = v
            if len(obj["object_species"]) != O.n:
                return ("cli_names", f"object_species has {len(obj['object_species'])} entries for {O.n} object nodes: {ln[:200]}", costs)
        m = {oid[k]: sid[x] for k, x in obj["object_species"].items()}
        if "syntenies" in obj:
            is_ord = obj["ordered"]
            lab = {oid[k]: (tuple(x) if is_ord else frozenset(x)) for k, x in obj["syntenies"].items()}
            mod = ordered if is_ord else unordered
            rl = mod.costs_of(O, S, leafmap, leafsyn, costs, m, lab)
            want = None if rl is None else rl[0] + rl[1]
        else:
            want = dtl.cost_of(O, S, leafmap, costs[:4], m)
        if want is None or float(printed) != float(want):
            return ("cli_min_cost", f"printed 'Minimum cost: {printed}' but the written object has model cost {want}: {ln[:200]}",
                    costs)
    return None


def run_cli_shard(O, S, osh, ssh, report):
    states = trans = nt = 0
    samples = []
    o2 = spaces.ordered_syntenies(2)
    u2 = spaces.unordered_syntenies(2)
    for leafmap in spaces.assignments(O, S):
        n = len(O.leaves)
        for algo in CLI_ALGOS:
            if algo in ("lca", "thl", "exh"):
                syn_menu = [None]
            elif algo in ("base_spfs", "ext_spfs"):
                syn_menu = [dict(zip(O.leaves, t)) for t in spaces.synteny_tuples(n, o2)
                            if ordered.root_orders(dict(zip(O.leaves, t)))]
            else:
                syn_menu = [dict(zip(O.leaves, t)) for t in spaces.synteny_tuples(n, u2)]
            for leafsyn in syn_menu:
                for ci, costs in enumerate(CLI_COSTS):
                    for policy in ("ANY", "ALL"):
                        if ci and policy == "ALL":
                            continue
                        states += 1
                        trans += 1
                        nt += 1 if (leafsyn is not None or ci) else 0
                        bad = check_cli(O, S, leafmap, leafsyn, algo, policy, costs)
                        case = {"mode": "cli", "object_shape": osh, "species_shape": ssh,
                                "leaf_object_species": sorted(leafmap.items()), "algorithm": algo, "policy": policy,
                                "leaf_syntenies": None if leafsyn is None else sorted((k, list(x)) for k, x in leafsyn.items())}
                        if bad:
                            report(bad, case)
                        if not samples:
                            samples.append(dict(case, costs=A.costs_to_json(costs)))
    return states, trans, nt, samples


def replay(v):
    case = v["case"]
    O, S = T(shape_from_json(case["object_shape"])), T(shape_from_json(case["species_shape"]))
    leafmap = {int(k): int(x) for k, x in case["leaf_object_species"]}
    menu = [A.costs_from_json(case["costs"])] if case.get("costs") else MENU12
    mode = case["mode"]
    if mode == "cli":
        leafsyn = None if case.get("leaf_syntenies") is None else {int(k): tuple(x) for k, x in case["leaf_syntenies"]}
        bad = check_cli(O, S, leafmap, leafsyn, case["algorithm"], case["policy"], menu[0])
        return {"violated": bool(bad), "detail": (bad[0] + ": " + bad[1]) if bad else None}
    m = {int(k): int(x) for k, x in case["mapping"]}
    if mode == "plain":
        evs = dtl.events_of(O, S, leafmap, m)
        bad = compare_plain(O, S, leafmap, m, evs, menu)
    else:
        is_ord = mode == "ordered"
        lab = {int(k): (tuple(x) if is_ord else frozenset(x)) for k, x in case["labelling"]}
        leafsyn = {v: lab[v] for v in O.leaves}
        bad = compare_labelled(O, S, leafmap, leafsyn, m, lab, is_ord, menu)
    return {"violated": bool(bad), "detail": (bad[0] + ": " + bad[1]) if bad else None}
