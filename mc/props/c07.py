"""C07 - the LCA reconciliation is the unique optimum of the duplication-loss model."""
import traceback

from .. import adapters as A
from .. import spaces
from ..refmodel import dtl
from ..refmodel.trees import T, shape_from_json
from ete3 import Tree
from superrec2.compute.reconciliation import reconcile_lca, reconcile_thl
from superrec2.compute.exhaustive import reconcile_exhaustive
from superrec2.model.reconciliation import ReconciliationInput, NodeEvent, EdgeEvent
from superrec2.utils.trees import LowestCommonAncestor

PROP = "C07"
LEVEL = "exploration"
INF = dtl.INF
RULE = (
    "every pair of plane binary shapes within the slice bounds x every leaf assignment; for each input all "
    "transfer-free valid mappings are enumerated by the model and summarised as (#dup, #loss); all 36 (dup, loss) in "
    "{0..5}^2 are then evaluated arithmetically (spe = 0, hgt irrelevant). reconcile_lca must map every internal node "
    "to the model LCA of the species of its leaves, be valid, have implementation cost = model cost = the minimum over "
    "transfer-free mappings for all 36 vectors, and be the only minimiser whenever loss > 0. Non-trivial input: the LCA "
    "mapping contains a duplication or a loss, or >= 2 transfer-free mappings exist. Session slice (operation "
    "histories): one species tree and one LowestCommonAncestor object (ancestors named / unnamed) shared by every object "
    "tree of the bound, one leaf-mapping dict per object tree updated in place through all assignments, and every ordered "
    "pair of assignments from a fresh dict on inputs with <= 27 assignments; every call must give the model LCA mapping "
    "and cost of the current assignment (state carried between calls must not matter)."
)
ASSUMPTIONS = ["reference model refmodel/dtl.py; transfer-free = no node classified as a transfer by the documented event model"]
BUDGET = {"quick": 600, "thorough": 2400}
GRID = [(d, l) for d in range(6) for l in range(6)]


def plan(tier, seed):
    if tier == "quick":
        pairs = [("P4x4", p) for p in spaces.shape_pairs(4, 4)] + [("P5x3", p) for p in spaces.shape_pairs(5, 3, min_obj=5)]
        sess = [(4, s) for n in range(1, 5) for s in spaces.binary_shapes(n)] + [(3, s) for s in spaces.binary_shapes(5)]
    else:
        pairs = [("P5x4", p) for p in spaces.shape_pairs(5, 4)] + [("P4x5", p) for p in spaces.shape_pairs(4, 5, min_sp=5)] + \
                [("P3x6", p) for p in spaces.shape_pairs(3, 6, min_sp=6)]
        sess = [(5, s) for n in range(1, 5) for s in spaces.binary_shapes(n)] + [(4, s) for s in spaces.binary_shapes(5)] + \
               [(3, s) for s in spaces.binary_shapes(6)]
    out = [{"slice": name, "osh": o, "ssh": s} for name, (o, s) in pairs]
    # session mode (operation histories): one species tree and ONE LowestCommonAncestor object, ancestors named or
    # unnamed, shared by every object tree up to max_obj leaves; per object tree one leaf-mapping dict that is updated
    # in place from one leaf assignment to the next (the way a caller sweeps assignments); plus, on the small inputs,
    # every ordered pair of assignments from a fresh state
    for max_obj, ssh in sess:
        for unnamed in (False, True):
            out.append({"slice": "session", "mode": "session", "ssh": ssh, "max_obj": max_obj, "unnamed": unnamed})
    return out


def check_input(O, S, leafmap):
    """-> (bad, nontrivial)"""
    inp, onode, snode = A.build_input(O, S, leafmap, (0, 1, INF, 1, 1))
    try:
        out = reconcile_lca(inp)
        m = A.mapping_of(out, onode, snode)
    except Exception as exc:
        return ("exception", f"reconcile_lca raised {type(exc).__name__}: {exc}\n{traceback.format_exc(limit=5)}"), False
    want = dtl.lca_mapping(O, S, leafmap)
    if m != want:
        return ("lca_mapping", f"reconcile_lca gives {sorted(m.items(), key=str)}, model LCA mapping {sorted(want.items())}"), False
    # the mapping is defined without reference to the unit costs: same answer whatever dup / loss are (dup != loss, loss = 0,
    # dup = 0, finite transfer cost)
    for costs in ((0, 3, INF, 1, 1), (0, 1, INF, 0, 1), (0, 0, INF, 2, 1), (1, 2, 1, 0, 1), (0, 5, 0, 3, 1)):
        inp2, onode2, snode2 = A.build_input(O, S, leafmap, costs)
        try:
            m2 = A.mapping_of(reconcile_lca(inp2), onode2, snode2)
        except Exception as exc:
            return ("exception", f"reconcile_lca raised {type(exc).__name__}: {exc} at costs {A.costs_to_json(costs)}"), False
        if m2 != want:
            return ("lca_mapping", f"at costs {A.costs_to_json(costs)} reconcile_lca gives {sorted(m2.items(), key=str)}, model LCA "
                    f"mapping {sorted(want.items())}"), False
    evs = dtl.events_of(O, S, leafmap, m)
    if evs is None:
        return ("invalid", f"LCA mapping invalid: {sorted(m.items())}"), False
    if any(e[0] == "T" for e in evs.values()):
        return ("invalid", "LCA mapping contains a transfer"), False
    mine = (sum(1 for e in evs.values() if e[0] == "D"), sum(e[1] for e in evs.values()))
    summ = []
    for mm, ee in dtl.valid_mappings(O, S, leafmap):
        if any(e[0] == "T" for e in ee.values()):
            continue
        summ.append((sum(1 for e in ee.values() if e[0] == "D"), sum(e[1] for e in ee.values()), mm))
    for dup, loss in GRID:
        c = mine[0] * dup + mine[1] * loss
        best = min(d * dup + l * loss for d, l, _ in summ)
        if c != best:
            return ("not_minimum", f"LCA mapping costs {c} at (dup, loss)=({dup}, {loss}); a transfer-free mapping costs {best}"), True
        if loss > 0:
            ties = [mm for d, l, mm in summ if d * dup + l * loss == best]
            if len(ties) != 1:
                return ("not_unique", f"{len(ties)} transfer-free mappings attain the minimum {best} at (dup, loss)=({dup}, {loss})"), True
    for costs in ((0, 1, INF, 1, 1), (0, 3, INF, 2, 1), (0, 0, INF, 5, 1), (0, 5, 1, 0, 1)):
        out.input.costs.clear()
        out.input.costs.update(A.cost_dict(costs))
        ic = A.impl_cost(out.cost())
        wantc = mine[0] * costs[1] + mine[1] * costs[3]
        if ic != wantc:
            return ("cost_mismatch", f"implementation cost {ic} of the LCA reconciliation != model cost {wantc} at {costs}"), True
    # "equality when transfers are forbidden": the general solver at hgt = inf returns the LCA reconciliation and nothing else,
    # under both policies and for unit losses as well as dear ones (3, 4: a loss term that is right only at loss = 1 shows)
    if len(O.leaves) <= 4 and len(S.leaves) <= 4:
        for costs in ((0, 1, INF, 1, 1), (0, 5, INF, 4, 1), (0, 2, INF, 3, 1), (0, 1, INF, 0, 1), (0, 2, INF, 0, 3)):
            inp4, onode4, snode4 = A.build_input(O, S, leafmap, costs)
            wantc = mine[0] * costs[1] + mine[1] * costs[3]
            for policy in ("ANY", "ALL"):
                try:
                    outs = list(reconcile_thl(inp4, A.POLICY[policy]))
                    got = [(A.mapping_of(o, onode4, snode4), A.impl_cost(o.cost())) for o in outs]
                except Exception as exc:
                    return ("exception", f"reconcile_thl/{policy} raised {type(exc).__name__}: {exc} at costs {A.costs_to_json(costs)}"), True
                if costs[3] == 0:
                    # free losses: the LCA reconciliation is a minimum but not the only one; every returned reconciliation must
                    # cost what it costs, and the LCA mapping must be among the ALL results (segmental losses priced apart)
                    if not got or any(g[1] != wantc for g in got) or (policy == "ALL" and want not in [g[0] for g in got]):
                        return ("thl_at_inf", f"general solver at hgt = inf, free full losses, policy {policy}, costs "
                                              f"{A.costs_to_json(costs)}: returns {[(sorted(g[0].items(), key=str), g[1]) for g in got][:2]}, "
                                              f"the LCA reconciliation costs {wantc}"), True
                    continue
                if [g[0] for g in got] != [want] or got[0][1] != wantc:
                    return ("thl_at_inf", f"general solver at hgt = inf, policy {policy}, costs {A.costs_to_json(costs)}: returns "
                                          f"{[(sorted(g[0].items(), key=str), g[1]) for g in got][:2]}, expected exactly the LCA "
                                          f"mapping {sorted(want.items())} at cost {wantc}"), True
    # uniqueness as the package itself prices the alternatives: the exhaustive solver at hgt = inf and loss > 0 returns the LCA
    # reconciliation and nothing else (small inputs)
    if len(O.leaves) <= 3 and len(S.leaves) <= 3:
        for costs in ((0, 1, INF, 1, 1), (0, 3, INF, 2, 1)):
            inp6, onode6, snode6 = A.build_input(O, S, leafmap, costs)
            try:
                got6 = [A.mapping_of(o, onode6, snode6) for o in reconcile_exhaustive(inp6, A.POLICY["ALL"])]
            except Exception as exc:
                return ("exception", f"reconcile_exhaustive raised {type(exc).__name__}: {exc} at costs {A.costs_to_json(costs)}"), True
            if got6 != [want]:
                return ("not_unique", f"exhaustive solver at hgt = inf, costs {A.costs_to_json(costs)}: {len(got6)} optimal "
                                      f"reconciliations {[sorted(g.items(), key=str) for g in got6][:3]}, expected only the LCA mapping"), True
    # the LCA reconciliation as it is handed on BY NAME: a partially labelled input (the last ancestor of each tree already
    # called O1 / S1, the others nameless), label_internal(), then the dictionary form - one entry per object node, the names
    # all different, each node at the name of its LCA species
    if len(O.internal) >= 2:
        on = {v: ("" if O.children[v] else f"o{v}") for v in range(O.n)}
        sn = {v: ("" if S.children[v] else f"s{v}") for v in range(S.n)}
        on[O.internal[-1]] = "O1"
        if S.internal:
            sn[S.internal[-1]] = "S1"
        inp5, onode5, snode5 = A.build_input(O, S, leafmap, (0, 1, INF, 1, 1), onames=on, snames=sn)
        try:
            inp5.label_internal()
            d5 = reconcile_lca(inp5).to_dict()
        except Exception as exc:
            return ("exception", f"label_internal / reconcile_lca / to_dict raised {type(exc).__name__}: {exc}"), True
        names_o = [onode5[v].name for v in range(O.n)]
        names_s = [snode5[v].name for v in range(S.n)]
        if len(set(names_o)) != O.n or len(set(names_s)) != S.n or not all(names_o) or not all(names_s):
            return ("by_name", f"after label_internal the node names are {names_o} / {names_s}"), True
        got5 = d5["object_species"]
        want5 = {onode5[v].name: snode5[want[v]].name for v in range(O.n)}
        if got5 != want5:
            return ("by_name", f"dictionary form maps {sorted(got5.items())}, the LCA mapping by name is {sorted(want5.items())}"), True
    # the same input read back from its dictionary form (as the command-line tool builds it), zero unit costs included
    for costs in ((0, 0, 7, 5, 1), (0, 5, 1, 0, 1), (0, 2, 3, 4, 0)):
        inp3, _, _ = A.build_input(O, S, leafmap, costs)
        try:
            back = type(inp3).from_dict(inp3.to_dict())
            ic = A.impl_cost(reconcile_lca(back).cost())
        except Exception as exc:
            return ("exception", f"from_dict / reconcile_lca raised {type(exc).__name__}: {exc} at costs {costs}"), True
        wantc = mine[0] * costs[1] + mine[1] * costs[3]
        if ic != wantc:
            return ("cost_mismatch", f"input read back from its dictionary form: LCA reconciliation costs {ic}, model cost {wantc} "
                    f"at {costs}"), True
    return None, (mine != (0, 0) or len(summ) >= 2)


def session_step(O, S, ot, lca, los, onode, snode, leafmap):
    """one reconcile_lca call in a session: shared trees, shared LCA structure, shared (already updated) mapping dict"""
    own = A.cost_dict((0, 1, INF, 1, 1))      # the caller's own cost dict, kept and edited below (a cost sweep)
    inp = ReconciliationInput(ot, lca, los, own)
    try:
        out = reconcile_lca(inp)
        m = A.mapping_of(out, onode, snode)
    except Exception as exc:
        return ("exception", f"reconcile_lca raised {type(exc).__name__}: {exc}\n{traceback.format_exc(limit=5)}")
    want = dtl.lca_mapping(O, S, leafmap)
    if m != want:
        return ("lca_mapping", f"reconcile_lca gives {sorted(m.items(), key=str)}, model LCA mapping {sorted(want.items())}")
    ic = A.impl_cost(out.cost())
    evs = dtl.events_of(O, S, leafmap, want)
    wantc = sum(1 for e in evs.values() if e[0] == "D") + sum(e[1] for e in evs.values())
    if ic != wantc:
        return ("cost_mismatch", f"implementation cost {ic} of the LCA reconciliation != model cost {wantc}")
    ndup, nloss = sum(1 for e in evs.values() if e[0] == "D"), sum(e[1] for e in evs.values())
    for dup, loss in ((3, 1), (0, 2), (1, 1)):
        own[NodeEvent.DUPLICATION] = dup       # the dict the caller passed in, not inp.costs
        own[EdgeEvent.FULL_LOSS] = loss
        try:
            ic = A.impl_cost(reconcile_lca(inp).cost())
        except Exception as exc:
            return ("exception", f"reconcile_lca raised {type(exc).__name__}: {exc}\n{traceback.format_exc(limit=5)}")
        if ic != dup * ndup + loss * nloss:
            return ("cost_mismatch", f"caller's cost dict set to dup={dup}, loss={loss} after the input was built: LCA "
                                     f"reconciliation reported at {ic}, model cost {dup * ndup + loss * nloss}")
    if len(O.leaves) <= 3 and len(S.leaves) <= 3:
        # "equality when transfers are forbidden": the general solver on the SAME input object, first with transfers allowed,
        # then - the cost dict edited in place - with an infinite transfer cost, must then return exactly the LCA mapping
        try:
            inp.costs[NodeEvent.HORIZONTAL_TRANSFER] = 1
            list(reconcile_thl(inp, A.POLICY["ALL"]))
            inp.costs[NodeEvent.HORIZONTAL_TRANSFER] = A.inf
            thl_set = reconcile_thl(inp, A.POLICY["ALL"])
            # (only with uniquely named nodes: the hash of an output is computed from node names, so with nameless
            # ancestors equal outputs may legitimately... hash apart; the statement does not speak about that case)
            if all(n.name for n in ot.traverse()) and (out not in set(thl_set) or out not in list(thl_set)):
                return ("thl_at_inf", "the LCA reconciliation is not a member (==, and through hashing) of the general solver's "
                                      "result at hgt = inf")
            res = [A.mapping_of(o, onode, snode) for o in thl_set]
            costs_thl = {A.impl_cost(o.cost()) for o in reconcile_thl(inp, A.POLICY["ALL"])}
        except Exception as exc:
            return ("exception", f"reconcile_thl raised {type(exc).__name__}: {exc}\n{traceback.format_exc(limit=5)}")
        if costs_thl != {wantc}:
            return ("thl_at_inf", f"general solver with hgt = inf (set in place after a run with hgt = 1) returns costs {sorted(costs_thl, key=str)}, "
                    f"LCA reconciliation costs {wantc}")
        if res != [want]:
            return ("thl_at_inf", f"general solver with hgt = inf returns {len(res)} solutions {res[:2]}, expected only the LCA mapping")
    return None


def run_session(ssh, max_obj, unnamed):
    """explore one session; deterministic, so a replay simply runs the same session again.
    -> (evaluations, nontrivial, violations)"""
    S = T(ssh)
    snames = {v: (f"s{v}" if (not S.children[v] or not unnamed) else "") for v in range(S.n)}
    st = Tree(S.newick(snames), format=1)
    snode = A.nodes_by_index(S, st)
    # an earlier structure has indexed the same node objects, on the mirrored tree (every node object then sat at another
    # place of the tour); the session's own structure is built afterwards on the tree as the model has it
    for n in st.traverse():
        if n.children:
            n.children.reverse()
    earlier = LowestCommonAncestor(st)   # noqa: F841
    for n in st.traverse():
        if n.children:
            n.children.reverse()
    lca = LowestCommonAncestor(st)
    n_eval = nt = 0
    viols = []
    calls = 0

    def steps_for(osh, seqs):
        """seqs: list of assignment sequences, each run on ONE object tree + ONE dict"""
        nonlocal n_eval, nt, calls
        O = T(osh)
        for seq in seqs:
            onames = {v: (f"o{v}" if (not O.children[v] or not unnamed) else "") for v in range(O.n)}
            ot = Tree(O.newick(onames), format=1)
            onode = A.nodes_by_index(O, ot)
            los = {}
            done = []
            for leafmap in seq:
                for v, sp in leafmap.items():
                    los[onode[v]] = snode[sp]
                done.append(sorted(leafmap.items()))
                n_eval += 1
                calls += 1
                if len(done) > 1:
                    nt += 1
                bad = session_step(O, S, ot, lca, los, onode, snode, leafmap)
                if bad:
                    if len(viols) < 3 and not any(x["subcheck"] == "session_" + bad[0] for x in viols):
                        viols.append({"property": PROP, "subcheck": "session_" + bad[0],
                                      "detail": f"call #{calls} of the session, object shape {osh}, assignments applied to the "
                                                f"same mapping dict so far (last {len(done[-3:])}): {done[-3:]}: {bad[1]}",
                                      "case": {"mode": "session", "species_shape": ssh, "max_obj": max_obj, "unnamed": unnamed}})
                    break

    for no in range(1, max_obj + 1):
        for osh in spaces.binary_shapes(no):
            O = T(osh)
            asgs = list(spaces.assignments(O, S))
            steps_for(osh, [asgs])                       # the sweep: one dict updated in place through all assignments
            # other LowestCommonAncestor structures come to life on clades of the same species tree (a caller analysing a
            # sub-clade); the session's own structure must not be disturbed by them
            clade_structs = [LowestCommonAncestor(snode[v]) for v in S.internal if v != S.root]
            if len(asgs) <= 27:
                steps_for(osh, [[a, b] for a in asgs for b in asgs])   # every depth-2 history from a fresh dict
    return n_eval, nt, viols


def run_shard(shard, tier, seed):
    if shard.get("mode") == "session":
        n_eval, nt, viols = run_session(shard["ssh"], shard["max_obj"], shard["unnamed"])
        return {"evaluations": n_eval, "inputs": n_eval, "nontrivial": nt, "violations": viols, "violations_total": len(viols),
                "samples": [{"mode": "session", "species_shape": shard["ssh"], "max_obj": shard["max_obj"],
                             "unnamed": shard["unnamed"]}],
                "counters": {"session_calls": n_eval}}
    osh, ssh = shard["osh"], shard["ssh"]
    O, S = T(osh), T(ssh)
    n_eval = nt = vtotal = 0
    viols = []
    samples = []
    for leafmap in spaces.assignments(O, S):
        n_eval += 1
        bad, is_nt = check_input(O, S, leafmap)
        if is_nt:
            nt += 1
        case = {"object_shape": osh, "species_shape": ssh, "leaf_object_species": sorted(leafmap.items())}
        if bad:
            vtotal += 1
            if len(viols) < 4 and not any(v["subcheck"] == bad[0] for v in viols):
                viols.append({"property": PROP, "subcheck": bad[0], "case": case, "detail": bad[1]})
        if not samples:
            samples.append(case)
    return {"evaluations": n_eval, "inputs": n_eval, "nontrivial": nt, "samples": samples, "violations": viols,
            "violations_total": vtotal, "counters": {}}


def replay(v):
    c = v["case"]
    if c.get("mode") == "session":
        _, _, viols = run_session(shape_from_json(c["species_shape"]), c["max_obj"], c["unnamed"])
        return {"violated": bool(viols), "detail": (viols[0]["subcheck"] + ": " + viols[0]["detail"]) if viols else None}
    O, S = T(shape_from_json(c["object_shape"])), T(shape_from_json(c["species_shape"]))
    leafmap = {int(k): int(x) for k, x in c["leaf_object_species"]}
    bad, _ = check_input(O, S, leafmap)
    return {"violated": bool(bad), "detail": (bad[0] + ": " + bad[1]) if bad else None}
