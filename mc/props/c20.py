"""C20 - triple decomposition, supertree construction and the disjoint-set structure.

Triples / supertrees: bounded-exhaustive over labelled binary trees and triple sets.
Union-find: E1 explicit-state BFS over all unite() histories on 5 elements with the
naive partition as reference model, run in lock-step.
"""
import itertools

from .. import adapters as A  # noqa: F401
from ..refmodel import graphs as G
from ete3 import Tree
from superrec2.utils.trees import (
    tree_to_triples, tree_from_triples, all_trees_from_triples, supertree, all_supertrees,
)
from superrec2.utils.disjoint_set import DisjointSet

PROP = "C20"
LEVEL = "model_checking"
RULE = (
    "union-find: BFS over the states of a real DisjointSet(5) reachable by unite(i, j) histories (25 operations per "
    "step, i = j included) on 3-6 elements up to depth 6 (quick) / 10 (thorough) on <= 5 elements (where the search reaches a fixpoint: frontier_left = 0 in the counters) and depth 4 / 7 on 6 elements; state = (parent, rank, groups) of the real object after "
    "the queries' path compression, paired with the naive partition; in every state find classes, len, to_list, the "
    "boolean returned by unite, and binary() (each of the 2^(g-1)-1 two-block coarsenings once, original untouched) are "
    "compared with the reference; each transition is replayed on a fresh object. Triples: every labelled binary tree on "
    "<= 5 (thorough 6) leaves round-trips through tree_to_triples / tree_from_triples / all_trees_from_triples; every "
    "subset of the 12 rooted triples on 4 leaves (thorough: also every set of <= 3 triples on 5 leaves): all-trees = the "
    "binary trees displaying every triple, each once; one-tree returns a displaying tree iff one exists; "
    "supertree/all_supertrees for every pair of binary trees on overlapping leaf sets within {a..e} of size <= 4 "
    "(thorough <= 5 for one of them). Non-trivial: a triple set displayed by >= 2 or by 0 trees; a union-find state with "
    ">= 1 merge."
)
ASSUMPTIONS = ["reference models refmodel/graphs.py (clade-based display test, naive partitions)", "ete3 tree container"]
BUDGET = {"quick": 600, "thorough": 1800}
LEAVES = "abcdef"


def plan(tier, seed):
    out = []
    depth = 6 if tier == "quick" else 10
    out.append({"slice": "union-find-bfs", "mode": "uf", "n": 5, "depth": depth})
    out.append({"slice": "union-find-bfs", "mode": "uf", "n": 4, "depth": depth})
    out.append({"slice": "union-find-bfs", "mode": "uf", "n": 3, "depth": depth})
    out.append({"slice": "union-find-bfs", "mode": "uf", "n": 6, "depth": 4 if tier == "quick" else 7})
    maxl = 5 if tier == "quick" else 6
    for k in range(1, maxl + 1):
        out.append({"slice": "tree-roundtrip", "mode": "roundtrip", "k": k})
    for part in range(16):
        out.append({"slice": "triple-subsets-4", "mode": "subsets4", "part": [part, 16]})
    if tier == "thorough":
        for part in range(32):
            out.append({"slice": "triple-subsets-5(<=3)", "mode": "subsets5", "part": [part, 32]})
    for part in range(8):
        out.append({"slice": "supertrees", "mode": "super", "part": [part, 8], "big": tier == "thorough"})
    return out


# ------------------------------------------------------------------ union-find (E1)
def uf_build(n, hist):
    ds = DisjointSet(n)
    ref = [{i} for i in range(n)]   # naive partition: list of blocks
    rets = []
    for i, j in hist:
        r = ds.unite(i, j)
        bi = next(b for b in ref if i in b)
        bj = next(b for b in ref if j in b)
        want = bi is not bj
        if want:
            ref.remove(bj)
            bi |= bj
        rets.append((bool(r), want))
    return ds, ref, rets


def uf_check(n, hist):
    """invariant in the state reached by hist (fresh object); None or detail"""
    ds, ref, rets = uf_build(n, hist)
    for k, (got, want) in enumerate(rets):
        if got != want:
            return f"unite{tuple(hist[k])} returned {got}, expected {want}"
    blocks = sorted(sorted(b) for b in ref)
    if len(ds) != len(blocks):
        return f"len() = {len(ds)}, partition has {len(blocks)} blocks"
    got = sorted(sorted(b) for b in ds.to_list())
    if got != blocks:
        return f"to_list() = {got}, expected {blocks}"
    for i in range(n):
        for j in range(n):
            same = any(i in b and j in b for b in ref)
            if (ds.find(i) == ds.find(j)) != same:
                return f"find({i}) == find({j}) is {ds.find(i) == ds.find(j)}, expected {same}"
    before = (list(ds.parent), list(ds.rank), ds.groups)
    try:
        bins = ds.binary()
    except Exception as exc:
        return f"binary() raised {type(exc).__name__}: {exc}"
    want = sorted(sorted([sorted(set().union(*g1)), sorted(set().union(*g2))]) for g1, g2 in G.partitions_into_two(ref))
    gotb = sorted(sorted(sorted(b) for b in p.to_list()) for p in bins)
    if gotb != want:
        return f"binary() gives {len(gotb)} partitions ({len(set(map(str, gotb)))} distinct), expected {len(want)}"
    for p in bins:
        if len(p) != 2:
            return f"binary() result reports len {len(p)}"
    if sorted(sorted(b) for b in ds.to_list()) != blocks or len(ds) != len(blocks):
        return "binary() modified the original partition"
    return None


def uf_state(n, hist):
    ds, ref, _ = uf_build(n, hist)
    for i in range(n):
        ds.find(i)
    extra = tuple(sorted((k, repr(v)) for k, v in vars(ds).items() if k not in ("parent", "rank", "groups")))
    return (tuple(ds.parent), tuple(ds.rank), ds.groups, extra, tuple(sorted(tuple(sorted(b)) for b in ref)))


def run_uf(shard):
    n, depth = shard["n"], shard["depth"]
    ops = [(i, j) for i in range(n) for j in range(n)]
    seen = {uf_state(n, []): []}
    frontier = [[]]
    transitions = 0
    viols = []
    d0 = uf_check(n, [])
    if d0:
        viols.append({"property": PROP, "subcheck": "union_find", "case": {"mode": "uf", "n": n, "history": []}, "detail": d0})
    level = 0
    while frontier and level < depth:
        nxt = []
        for hist in frontier:
            for op in ops:
                h2 = hist + [list(op)]
                transitions += 1
                bad = uf_check(n, h2)
                if bad:
                    if len(viols) < 4:
                        viols.append({"property": PROP, "subcheck": "union_find",
                                      "case": {"mode": "uf", "n": n, "history": h2}, "detail": bad})
                    continue
                st = uf_state(n, h2)
                if st not in seen:
                    seen[st] = h2
                    nxt.append(h2)
        frontier = nxt
        level += 1
    nt = sum(1 for st in seen if st[2] < n)
    hists = list(seen.values())
    samples = [{"mode": "uf", "n": n, "history": hists[len(hists) // 2]}, {"mode": "uf", "n": n, "history": hists[-1]}]
    return {"evaluations": transitions, "states": len(seen), "transitions": transitions, "traces": transitions,
            "nontrivial": nt, "samples": samples, "violations": viols,
            "counters": {f"uf{n}_states": len(seen), f"uf{n}_frontier_left": len(frontier)}}


# ------------------------------------------------------------------ triples
def ete(t):
    return Tree(G.tree_newick(t) + ";", format=1)


def ete_clades(t):
    return frozenset(frozenset(l.name for l in n.get_leaves()) for n in t.traverse())


SPECIAL = {"a": "HLA-A*01:01", "b": "x(1)", "c": "p,q", "d": "[k]=v", "e": "semi;colon", "f": "tab\tname"}


def ete_api(t, names):
    """the same tree built through the ete3 API (no Newick text involved), leaves renamed by `names`"""
    def rec(x, node):
        if isinstance(x, tuple):
            for c in x:
                rec(c, node.add_child())
        else:
            node.name = names.get(x, x)
    root = Tree()
    rec(t, root)
    return root


def ill_formed(trees):
    """None, or what is wrong with the parent/child links of the returned ete3 trees: every child's .up must be the node
    that lists it, and no node object may occur in two of the returned trees (or twice in one)"""
    seen = {}
    for i, t in enumerate(trees):
        if t.up is not None:
            return f"result #{i} has a root with a parent"
        for n in t.traverse():
            if id(n) in seen:
                return f"a node object ({n.name!r}) occurs in result #{seen[id(n)]} and in result #{i}"
            seen[id(n)] = i
            for c in n.children:
                if c.up is not n:
                    return f"result #{i}: a child of {sorted(l.name for l in n.get_leaves())} does not point back to it"
    return None


def name_internals(tree, mode):
    """ancestors given fresh names ("fresh"), all the same label ("same") or the name of one of their leaves ("leaf")"""
    for i, n in enumerate(tree.traverse("preorder")):
        if not n.is_leaf():
            n.name = {"fresh": f"anc{i}", "same": "90", "leaf": n.get_leaves()[0].name}[mode]
    return tree


def check_roundtrip(t):
    for mode in (None, "fresh", "same", "leaf"):
        bad = check_roundtrip_mode(t, mode)
        if bad:
            return bad if mode is None else f"ancestors named ({mode}): {bad}"
    # leaf labels with characters that Newick text cannot carry (tree built through the API)
    tree = ete_api(t, SPECIAL)
    want = frozenset(frozenset(SPECIAL.get(x, x) for x in cl) for cl in G.tree_clades(t))
    try:
        leaves, triples = tree_to_triples(tree)
        back = tree_from_triples(leaves, triples)
        allt = all_trees_from_triples(leaves, triples)
    except Exception as exc:
        return f"leaf labels {sorted(SPECIAL.values())[:3]}...: raised {type(exc).__name__}: {exc}"
    if sorted(leaves) != sorted(SPECIAL.get(x, x) for x in G.tree_leaves(t)):
        return f"leaf labels with special characters: tree_to_triples leaves {leaves}"
    if back is None or ete_clades(back) != want or len(allt) != 1 or ete_clades(allt[0]) != want:
        return f"leaf labels with special characters: rebuilt {back.write(format=9) if back else None} / {len(allt)} trees"
    return ill_formed([back]) or ill_formed(allt)


def check_roundtrip_mode(t, mode):
    tree = ete(t)
    if mode:
        name_internals(tree, mode)
    want = G.tree_clades(t)
    leaves, triples = tree_to_triples(tree)
    if sorted(leaves) != sorted(G.tree_leaves(t)):
        return f"tree_to_triples leaves {leaves}"
    disp = G.displayed_triples(t)
    for tr in triples:
        a, b, c = tr
        if (min(a, b), max(a, b), c) not in disp:
            return f"tree_to_triples yields {tr}, not displayed by {G.tree_newick(t)}"
    if ete_clades(tree) != want:
        return "tree_to_triples modified its argument"
    back = tree_from_triples(leaves, triples)
    if back is None or ete_clades(back) != want:
        return f"tree_from_triples(tree_to_triples({G.tree_newick(t)})) = {back.write(format=9) if back else None}"
    allt = all_trees_from_triples(leaves, triples)
    if len(allt) != 1 or ete_clades(allt[0]) != want:
        return f"all_trees_from_triples gives {len(allt)} trees for the triples of {G.tree_newick(t)}"
    if mode is None and len(G.tree_leaves(t)) >= 3:
        # operation history: the SAME tree object is edited in place (the labels of its first and last leaf exchanged) and
        # decomposed again; the triples must be those of the tree as it is now
        ls = sorted(G.tree_leaves(t))
        sw = {ls[0]: ls[-1], ls[-1]: ls[0]}

        def relabel(x):
            return tuple(relabel(c) for c in x) if isinstance(x, tuple) else sw.get(x, x)

        for leaf in tree.get_leaves():
            leaf.name = sw.get(leaf.name, leaf.name)
        t2 = relabel(t)
        leaves2, triples2 = tree_to_triples(tree)
        disp2 = G.displayed_triples(t2)
        for a_, b_, c_ in triples2:
            if (min(a_, b_), max(a_, b_), c_) not in disp2:
                return (f"after exchanging the labels {ls[0]} and {ls[-1]} in place on a tree already decomposed once, tree_to_triples "
                        f"yields {(a_, b_, c_)}, not displayed by {G.tree_newick(t2)}")
        back2 = tree_from_triples(leaves2, triples2)
        if back2 is None or ete_clades(back2) != G.tree_clades(t2):
            return f"after an in-place label exchange the rebuilt tree is {back2.write(format=9) if back2 else None}, expected the clades of {G.tree_newick(t2)}"
    return None


_CACHE = {}


def trees_on(leaves):
    key = tuple(leaves)
    if key not in _CACHE:
        ts = list(G.all_binary_trees(leaves))
        _CACHE[key] = [(t, G.tree_clades(t), G.displayed_triples(t)) for t in ts]
    return _CACHE[key]


def check_triple_set(leaves, ts):
    """None or detail; also returns the number of displaying trees"""
    want = sorted(sorted(map(sorted, cl)) for _, cl, disp in trees_on(leaves) if set(ts) <= disp)
    try:
        got = all_trees_from_triples(list(leaves), list(ts))
        one = tree_from_triples(list(leaves), list(ts))
    except Exception as exc:
        return f"raised {type(exc).__name__}: {exc} on {ts}", len(want)
    bad = ill_formed(got) or (ill_formed([one]) if one is not None else None)
    if bad:
        return f"all_trees_from_triples / tree_from_triples({list(leaves)}, {ts}): {bad}", len(want)
    g = sorted(sorted(map(sorted, ete_clades(t))) for t in got)
    if g != want:
        return f"all_trees_from_triples({list(leaves)}, {ts}) gives {len(g)} trees ({len(set(map(str, g)))} distinct), expected {len(want)}", len(want)
    if (one is None) != (not want):
        return f"tree_from_triples({ts}) = {one.write(format=9) if one else None} but {len(want)} displaying trees exist", len(want)
    if one is not None:
        cl = ete_clades(one)
        if sorted(l.name for l in one.get_leaves()) != sorted(leaves):
            return f"tree_from_triples({ts}) has leaves {[l.name for l in one.get_leaves()]}", len(want)
        for tr in ts:
            if not G.clades_display_triple(cl, tr):
                return f"tree_from_triples({ts}) = {one.write(format=9)} does not display {tr}", len(want)
    return None, len(want)


def all_triples(leaves):
    out = set()
    for _, _, disp in trees_on(leaves):
        out |= disp
    return sorted(out)


def check_super(t1, t2):
    """supertree / all_supertrees of two binary trees"""
    l1, l2 = G.tree_leaves(t1), G.tree_leaves(t2)
    union = sorted(set(l1) | set(l2))
    d1, d2 = G.displayed_triples(t1), G.displayed_triples(t2)
    want = sorted(sorted(map(sorted, cl)) for _, cl, disp in trees_on(union) if d1 <= disp and d2 <= disp)
    def mirrored(t):
        return tuple(mirrored(c) for c in reversed(t)) if isinstance(t, tuple) else t

    try:
        one = supertree([ete(t1), ete(t2)])
        allt = all_supertrees([ete(t1), ete(t2)])
        # the same two trees with the children of every node of the second one written in the opposite order
        one_m = supertree([ete(t1), ete(mirrored(t2))])
        all_m = all_supertrees([ete(t1), ete(mirrored(t2))])
    except Exception as exc:
        return f"raised {type(exc).__name__}: {exc}", len(want)
    if sorted(sorted(map(sorted, ete_clades(t))) for t in all_m) != want or (one_m is None) != (not want):
        return (f"all_supertrees({G.tree_newick(t1)}, mirror image of {G.tree_newick(t2)}) gives {len(all_m)} trees / supertree "
                f"{'None' if one_m is None else 'a tree'}, expected {len(want)}"), len(want)
    bad = ill_formed(allt) or (ill_formed([one]) if one is not None else None)
    if bad:
        return f"all_supertrees / supertree({G.tree_newick(t1)}, {G.tree_newick(t2)}): {bad}", len(want)
    g = sorted(sorted(map(sorted, ete_clades(t))) for t in allt)
    if g != want:
        return f"all_supertrees({G.tree_newick(t1)}, {G.tree_newick(t2)}) gives {len(g)} trees, expected {len(want)}", len(want)
    if (one is None) != (not want):
        return f"supertree = {one.write(format=9) if one else None} but {len(want)} compatible binary trees exist", len(want)
    # the signature takes any iterable of trees: a generator and a map object must give the same answers as a list
    try:
        one_gen = supertree(ete(t) for t in (t1, t2))
        all_map = all_supertrees(map(ete, (t1, t2)))
    except Exception as exc:
        return f"raised {type(exc).__name__}: {exc} on a one-shot iterable of trees", len(want)
    if sorted(sorted(map(sorted, ete_clades(t))) for t in all_map) != want:
        return f"all_supertrees(map object of {G.tree_newick(t1)}, {G.tree_newick(t2)}) gives {len(all_map)} trees, expected {len(want)}", len(want)
    if (one_gen is None) != (one is None) or (one is not None and ete_clades(one_gen) != ete_clades(one)):
        return f"supertree(generator) = {one_gen.write(format=9) if one_gen else None}, supertree(list) = {one.write(format=9) if one else None}", len(want)
    if one is not None:
        cl = ete_clades(one)
        if sorted(l.name for l in one.get_leaves()) != union:
            return f"supertree has leaves {[l.name for l in one.get_leaves()]}, expected {union}", len(want)
        for tr in d1 | d2:
            if not G.clades_display_triple(cl, tr):
                return f"supertree {one.write(format=9)} does not display {tr} of an input tree", len(want)
    return None, len(want)


def run_shard(shard, tier, seed):
    mode = shard["mode"]
    if mode == "uf":
        return run_uf(shard)
    n_eval = nt = vtotal = 0
    viols = []
    samples = []

    def report(sub, detail, case):
        nonlocal vtotal
        vtotal += 1
        if len(viols) < 4:
            viols.append({"property": PROP, "subcheck": sub, "case": case, "detail": detail})

    if mode == "roundtrip":
        leaves = LEAVES[:shard["k"]]
        for t in G.all_binary_trees(leaves):
            n_eval += 1
            bad = check_roundtrip(t)
            case = {"mode": "roundtrip", "tree": G.tree_newick(t)}
            if shard["k"] >= 3:
                nt += 1
            if bad:
                report("roundtrip", bad, case)
            if not samples:
                samples.append(case)
    elif mode in ("subsets4", "subsets5"):
        leaves = LEAVES[:4] if mode == "subsets4" else LEAVES[:5]
        alltr = all_triples(leaves)
        part, k = shard["part"]
        if mode == "subsets4":
            gen = ([alltr[i] for i in range(len(alltr)) if bits >> i & 1] for bits in range(part, 1 << len(alltr), k))
        else:
            combos = [c for r in range(0, 4) for c in itertools.combinations(alltr, r)]
            gen = (list(c) for c in combos[part::k])
        for ts in gen:
            n_eval += 1
            bad, nw = check_triple_set(leaves, ts)
            if nw != 1:
                nt += 1
            case = {"mode": "triples", "leaves": list(leaves), "triples": [list(x) for x in ts]}
            if bad:
                report("triple_set", bad, case)
            if not samples and len(ts) >= 2:
                samples.append(case)
    else:
        part, k = shard["part"]
        sets = [c for r in (2, 3, 4) for c in itertools.combinations(LEAVES[:5], r)]
        big = [tuple(LEAVES[:5])] if shard["big"] else []
        pairs = [(a, b) for a in sets + big for b in sets if set(a) & set(b) and len(set(a) | set(b)) <= 5]
        idx = 0
        for la, lb in pairs:
            for t1 in G.all_binary_trees(la):
                for t2 in G.all_binary_trees(lb):
                    idx += 1
                    if idx % k != part:
                        continue
                    n_eval += 1
                    bad, nw = check_super(t1, t2)
                    if nw != 1:
                        nt += 1
                    case = {"mode": "super", "trees": [G.tree_newick(t1), G.tree_newick(t2)]}
                    if bad:
                        report("supertree", bad, case)
                    if not samples:
                        samples.append(case)
    return {"evaluations": n_eval, "nontrivial": nt, "samples": samples, "violations": viols, "violations_total": vtotal}


def parse_nested(s):
    """inverse of tree_newick for single-letter leaves"""
    pos = 0

    def rec():
        nonlocal pos
        if s[pos] == "(":
            pos += 1
            kids = [rec()]
            while s[pos] == ",":
                pos += 1
                kids.append(rec())
            pos += 1
            return tuple(kids)
        c = s[pos]
        pos += 1
        return c

    return rec()


def replay(v):
    c = v["case"]
    mode = c["mode"]
    if mode == "uf":
        bad = uf_check(c["n"], [tuple(x) for x in c["history"]])
    elif mode == "roundtrip":
        bad = check_roundtrip(parse_nested(c["tree"]))
    elif mode == "triples":
        bad, _ = check_triple_set("".join(c["leaves"]), [tuple(x) for x in c["triples"]])
    else:
        bad, _ = check_super(parse_nested(c["trees"][0]), parse_nested(c["trees"][1]))
    return {"violated": bool(bad), "detail": bad}
