"""C05 - ALL returns exactly the optimal solutions (each once), ANY exactly one of them."""
import os
import sys
import traceback

from .. import adapters as A
from .. import labelled as L
from .. import spaces
from ..refmodel import dtl
from ..refmodel.trees import T, shape_from_json
from . import c01

PROP = "C05"
LEVEL = "exploration"
RULE = (
    "same input slices as C01-C03 with a tie-rich coherent cost menu; for thl, exh (plain inputs) and base_spfs, "
    "ext_spfs, base_uspfs, superdtl (labelled inputs) the solver is run with ALL and with ANY on freshly built inputs; "
    "oracle = the complete optimal set from the brute-force / Bellman reference models (unordered: optimal solutions in "
    "which every node holds its required families or its parent's families plus its own gains). ALL must equal the "
    "oracle set key for key with no duplicate key and equal costs; ANY must return exactly one member. "
    "Non-trivial (input, vector, algorithm): the oracle set has >= 2 elements."
)
ASSUMPTIONS = [
    "reference models refmodel/{dtl,ordered,unordered}.py produce the complete optimal set (cross-validated brute force <-> Bellman)",
    "solutions compared through canonical keys (mapping, labelling) built from pre-order node positions",
    "cost vectors inside the coherent region (F-COHERENCE)",
]
BUDGET = {"quick": 900, "thorough": 3300}
INF = dtl.INF

TIE_MENU = [(0, 1, 1, 1, 1), (1, 1, 1, 1, 1), (0, 1, 1, 0, 0), (0, 1, 0, 1, 1), (0, 0, 1, 1, 1), (0, 1, INF, 1, 1), (0, 2, 2, 1, 1),
            (0, 1, 1, 1, 0)]       # last: free segmental losses only (every labelling between required and allowed content ties)
PLAIN_EXTRA = [(0, 1, 1, 0, 1), (0, 0, 0, 0, 1), (1, 2, 1, 0, 1), (0, 10 ** 10, 10 ** 10 + 3, 1, 1)]
PLAIN_MENU = [c for c in dict.fromkeys([c[:4] + (1,) for c in TIE_MENU] + PLAIN_EXTRA) if spaces.coherent_plain(c)]


def worker_init():
    sys.stderr = open(os.devnull, "w")


def plan(tier, seed):
    out = []
    o3, o2 = spaces.ordered_syntenies(3), spaces.ordered_syntenies(2)
    u3, u2, u4 = spaces.unordered_syntenies(3), spaces.unordered_syntenies(2), spaces.unordered_syntenies(4)
    lab = [c for c in TIE_MENU if spaces.coherent(c)]
    if tier == "quick":
        for osh, ssh in spaces.shape_pairs(4, 3):
            out.append({"slice": "plain:P4x3", "family": "plain", "osh": osh, "ssh": ssh, "costs": PLAIN_MENU})
        out += L.split_plan("ordered:O3x2x3", spaces.shape_pairs(3, 2), o3, 150,
                            {"family": "ordered", "costs": [lab[0], lab[1], lab[4], lab[-1]]})
        out += L.split_plan("unordered:U3x3x3", spaces.shape_pairs(3, 3), u3, 150,
                            {"family": "unordered", "costs": [lab[0], lab[4]]})
        out += L.split_plan("unordered:U4x2x2", spaces.shape_pairs(4, 2, min_obj=4), u2, 150,
                            {"family": "unordered", "costs": [lab[1], lab[2]]})
        out += L.split_plan("ordered:O4chainx1x3s", [(sh, None) for sh in spaces.chain_shapes(4)],
                            spaces.subsequence_syntenies(3), 100, {"family": "ordered", "costs": [lab[0]]})
        # 5 object leaves in a chain on one species: four nested ancestors, co-optimal labellings three levels deep
        out += L.split_plan("unordered:U5chainx1x3", [(sh, None) for sh in spaces.chain_shapes(5)], u3, 150,
                            {"family": "unordered", "costs": [lab[0]]})
        # ... and over FOUR families on the restricted menu {a, c, d, bd, abcd}: an INHERIT node reached from co-optimal
        # solutions in which its parent carries different contents
        out += L.split_plan("unordered:U5chainx1x{a,c,d,bd,abcd}", [(sh, None) for sh in spaces.chain_shapes(5)],
                            [("a",), ("c",), ("d",), ("b", "d"), ("a", "b", "c", "d")], 150, {"family": "unordered", "costs": [lab[0]]})
        # the 5-leaf comb on a species cherry over {ac, b, ab}: several compatible root orders with different optima while
        # transfers pay off (an ANY answer must still be one of the ALL answers, whatever order the root orders come in)
        out += L.split_plan("ordered:O5combx2x{ac,b,ab}", [(spaces.chain_shapes(5)[-1], (None, None))],
                            [("a", "c"), ("b",), ("a", "b")], 60, {"family": "ordered", "costs": [lab[0]]})
        # four families on 3 object leaves, one species: every tuple of subsequences of abcd (syntenies with a hole that has
        # genes on both sides: runs lost across a family the parent lacks)
        out += L.split_plan("ordered:O3x1x4s", spaces.shape_pairs(3, 1, min_obj=3), spaces.subsequence_syntenies(4), 100,
                            {"family": "ordered", "costs": [lab[0]]})
        return out
    for osh, ssh in spaces.shape_pairs(4, 4):
        out.append({"slice": "plain:P4x4", "family": "plain", "osh": osh, "ssh": ssh, "costs": PLAIN_MENU})
    for osh, ssh in spaces.shape_pairs(5, 3, min_obj=5):
        out.append({"slice": "plain:P5x3", "family": "plain", "osh": osh, "ssh": ssh, "costs": PLAIN_MENU[:4]})
    out += L.split_plan("ordered:O3x3x3", spaces.shape_pairs(3, 3), o3, 150, {"family": "ordered", "costs": lab})
    out += L.split_plan("ordered:O4x3x2", spaces.shape_pairs(4, 3, min_obj=4), o2, 150,
                        {"family": "ordered", "costs": lab[:5]})
    out += L.split_plan("ordered:O4x2x3s", spaces.shape_pairs(4, 2, min_obj=4),
                        spaces.subsequence_syntenies(3) + [("b", "a"), ("c", "b"), ("c", "a")], 100,
                        {"family": "ordered", "costs": lab[:2]})
    out += L.split_plan("unordered:U3x3x3", spaces.shape_pairs(3, 3), u3, 150, {"family": "unordered", "costs": lab})
    out += L.split_plan("unordered:U4x3x2", spaces.shape_pairs(4, 3, min_obj=4), u2, 150,
                        {"family": "unordered", "costs": lab[:5]})
    out += L.split_plan("unordered:U4x2x4", spaces.shape_pairs(4, 2, min_obj=4), u4, 150,
                        {"family": "unordered", "costs": lab[:3]})
    out += L.split_plan("unordered:U5x2x2", spaces.shape_pairs(5, 2, min_obj=5), u2, 150,
                        {"family": "unordered", "costs": lab[:2]})
    out += L.split_plan("unordered:U5chainx1x3", [(sh, None) for sh in spaces.chain_shapes(5)], u3, 150,
                        {"family": "unordered", "costs": lab[:3]})
    # the quick slices that the larger ones above do not subsume
    out = [sh for sh in plan("quick", seed) if sh["slice"] in ("ordered:O3x1x4s", "unordered:U5chainx1x{a,c,d,bd,abcd}", "ordered:O5combx2x{ac,b,ab}")] + out      # cheap ones first
    return out


# ----------------------------------------------------------------------------
def run_plain(algo, O, S, leafmap, costs, policy):
    """-> (error, list of (key, impl cost))"""
    inp, onode, snode = A.build_input(O, S, leafmap, costs)
    try:
        res = list(L.PLAIN[algo](inp, A.POLICY[policy]))
        out = []
        for r in res:
            m = A.mapping_of(r, onode, snode)
            out.append((tuple(sorted(m.items(), key=str)), A.impl_cost(r.cost())))
        return None, out
    except Exception as exc:
        return f"{algo}/{policy} raised {type(exc).__name__}: {exc}\n{traceback.format_exc(limit=6)}", []


def run_lab(algo, O, S, leafmap, leafsyn, costs, policy):
    r = L.run_labelled(algo, O, S, leafmap, leafsyn, costs, policy)
    if r.error:
        return r.error + "\n" + (r.trace or ""), []
    out = []
    for m, lab, c in r.sols:
        try:
            out.append((L.sol_key(algo, m, lab), c))
        except Exception as exc:
            return f"unusable solution: {exc}", []
    return None, out


def verdict(algo, oracle_keys, all_res, any_res):
    """None or (subcheck, detail)"""
    err, sols = all_res
    if err:
        return ("exception", err)
    keys = [k for k, _ in sols]
    if len(set(keys)) != len(keys):
        return ("all_duplicates", f"{algo}/ALL returned {len(keys)} solutions, only {len(set(keys))} distinct")
    if set(keys) != oracle_keys:
        missing = sorted(oracle_keys - set(keys), key=str)
        extra = sorted(set(keys) - oracle_keys, key=str)
        return ("all_set", f"{algo}/ALL returned {len(keys)} solutions, oracle has {len(oracle_keys)}; "
                f"missing {len(missing)} e.g. {missing[:1]}; extra {len(extra)} e.g. {extra[:1]}")
    if len({c for _, c in sols}) > 1:
        return ("all_costs", f"{algo}/ALL returned solutions of different costs {sorted({c for _, c in sols})}")
    err, sols = any_res
    if err:
        return ("exception", err)
    if oracle_keys:
        if len(sols) != 1:
            return ("any_count", f"{algo}/ANY returned {len(sols)} solutions, expected exactly one")
        if sols[0][0] not in oracle_keys:
            return ("any_member", f"{algo}/ANY returned a solution outside the optimal set: {sols[0][0]}")
    elif sols:
        return ("any_count", f"{algo}/ANY returned {len(sols)} solutions but no valid solution exists")
    return None


def run_plain_sequence(algo, O, S, leafmap, costs, policies):
    """the policies in turn on ONE input object -> list of (error, [(key, cost)])"""
    inp, onode, snode = A.build_input(O, S, leafmap, costs)
    outs = []
    # a sibling input on the SAME tree objects and LCA structure, under another cost vector (transfers forbidden, or allowed
    # if they already are forbidden), is solved first - as in a cost sweep that builds one input per vector over shared trees
    other = (0, 1, 1, 1, 1) if costs[2] == INF else (costs[0], costs[1], INF, costs[3], costs[4])
    sibling = type(inp)(inp.object_tree, inp.species_lca, dict(inp.leaf_object_species), A.cost_dict(other))
    try:
        list(L.PLAIN[algo](sibling, A.POLICY["ALL"]))
    except Exception:
        pass
    for policy in policies:
        try:
            res = list(L.PLAIN[algo](inp, A.POLICY[policy]))
            outs.append((None, [(tuple(sorted(A.mapping_of(r, onode, snode).items(), key=str)), A.impl_cost(r.cost())) for r in res]))
        except Exception as exc:
            outs.append((f"{algo}/{policy} raised {type(exc).__name__}: {exc}\n{traceback.format_exc(limit=6)}", []))
    return outs


def check_plain(algo, O, S, leafmap, costs, oracle_keys=None):
    if oracle_keys is None:
        best, sols, _ = dtl.brute(O, S, leafmap, costs[:4])
        oracle_keys = {tuple(sorted(m.items())) for m in sols}
    bad = verdict(algo, oracle_keys, run_plain(algo, O, S, leafmap, costs, "ALL"), run_plain(algo, O, S, leafmap, costs, "ANY"))
    if bad is None:
        # the same policies again, this time one after the other on a single input object (ALL, ANY, ALL, ANY): a policy
        # must not inherit anything from the call before it
        seq = run_plain_sequence(algo, O, S, leafmap, costs, ("ALL", "ANY", "ALL", "ANY"))
        for i in (0, 2):
            bad = verdict(algo, oracle_keys, seq[i], seq[i + 1])
            if bad:
                bad = ("sequence_" + bad[0], f"calls #{i + 1}/#{i + 2} of ALL, ANY, ALL, ANY on one input object: " + bad[1])
                break
    return bad, len(oracle_keys)


def check_lab(algo, O, S, leafmap, leafsyn, costs):
    best, keys = L.oracle(algo, O, S, leafmap, leafsyn, costs, canonical_only=True)
    return verdict(algo, keys, run_lab(algo, O, S, leafmap, leafsyn, costs, "ALL"),
                   run_lab(algo, O, S, leafmap, leafsyn, costs, "ANY")), len(keys)


def run_shard(shard, tier, seed):
    osh, ssh = shard["osh"], shard["ssh"]
    O, S = T(osh), T(ssh)
    n_eval = n_inputs = nt = vtotal = 0
    viols = []
    samples = []
    counters = {"solver_runs": 0, "oracle_solutions": 0}

    def report(bad, case):
        nonlocal vtotal
        vtotal += 1
        if len(viols) < 8 and not any(v["subcheck"] == bad[0] and v["case"]["algorithm"] == case["algorithm"] for v in viols):
            viols.append({"property": PROP, "subcheck": bad[0], "case": case, "detail": bad[1]})

    if shard["family"] == "plain":
        for leafmap in spaces.assignments(O, S):
            n_inputs += 1
            summ = []
            for m, evs in dtl.valid_mappings(O, S, leafmap):
                cnt = {"S": 0, "D": 0, "T": 0}
                loss = 0
                for e in evs.values():
                    cnt[e[0]] += 1
                    loss += e[1]
                summ.append((cnt["S"], cnt["D"], cnt["T"], loss, tuple(sorted(m.items()))))
            for costs in shard["costs"]:
                spe, dup, hgt, fl = costs[:4]
                best = INF
                opt = set()
                for s_, d_, t_, l_, key in summ:
                    c = s_ * spe + d_ * dup + (t_ * hgt if t_ else 0) + l_ * fl
                    if c < best:
                        best, opt = c, {key}
                    elif c == best and c < INF:
                        opt.add(key)
                counters["oracle_solutions"] += len(opt)
                for algo in ("thl", "exh"):
                    n_eval += 1
                    counters["solver_runs"] += 2
                    bad, nopt = check_plain(algo, O, S, leafmap, costs, opt)
                    if nopt >= 2:
                        nt += 1
                    if bad:
                        report(bad, dict(c01.case_json(osh, ssh, leafmap, costs, algo, "ALL"), family="plain"))
            if not samples:
                samples.append(dict(c01.case_json(osh, ssh, leafmap, shard["costs"][0], "thl", "ALL"), family="plain"))
    else:
        algos = ("ext_spfs", "base_spfs") if shard["family"] == "ordered" else ("superdtl", "base_uspfs")
        for leafmap, leafsyn in L.labelled_inputs(O, S, shard["menu"], shard.get("part")):
            n_inputs += 1
            for costs in shard["costs"]:
                for algo in algos:
                    n_eval += 1
                    counters["solver_runs"] += 2
                    bad, nopt = check_lab(algo, O, S, leafmap, leafsyn, costs)
                    counters["oracle_solutions"] += nopt
                    if nopt >= 2:
                        nt += 1
                    if bad:
                        report(bad, dict(L.case_json(osh, ssh, leafmap, leafsyn, costs, algo, "ALL"), family=shard["family"]))
            if not samples:
                samples.append(dict(L.case_json(osh, ssh, leafmap, leafsyn, shard["costs"][0], algos[0], "ALL"),
                                    family=shard["family"]))
    return {"evaluations": n_eval, "inputs": n_inputs, "nontrivial": nt, "samples": samples,
            "violations": viols, "violations_total": vtotal, "counters": counters}


def replay(v):
    case = v["case"]
    algo = case["algorithm"]
    if algo in L.PLAIN:
        O, S = T(shape_from_json(case["object_shape"])), T(shape_from_json(case["species_shape"]))
        leafmap = {int(k): int(x) for k, x in case["leaf_object_species"]}
        bad, _ = check_plain(algo, O, S, leafmap, A.costs_from_json(case["costs"]))
    else:
        osh, ssh, O, S, leafmap, leafsyn, costs, rootsyn = L.case_from_json(case)
        bad, _ = check_lab(algo, O, S, leafmap, leafsyn, costs)
    return {"violated": bool(bad), "detail": (bad[0] + ": " + bad[1]) if bad else None}
