"""C11 - serialised inputs and results read back to the same reconciliation."""
import itertools
import json
import os
import sys
import traceback

from .. import adapters as A
from .. import labelled as L
from .. import spaces
from ..refmodel import dtl, ordered, unordered
from ..refmodel.trees import T, shape_from_json
from superrec2.model.reconciliation import (
    ReconciliationInput, ReconciliationOutput, SuperReconciliationInput, SuperReconciliationOutput,
)
from superrec2.compute.reconciliation import reconcile_lca, reconcile_thl
from superrec2.compute.exhaustive import reconcile_exhaustive

PROP = "C11"
LEVEL = "exploration"
INF = dtl.INF
RULE = (
    "objects: (a) every output of every algorithm (ALL) on the small solver slices, (b) every valid species mapping and "
    "every valid ordered / unordered labelling enumerated by the reference model, and the inputs themselves; crossed "
    "with a naming menu (letters, digits only, underscores, auto-label look-alikes such as O3 / S1, a_b_1), a colour "
    "menu (every subset of <= 3 object nodes, every subset of <= 2 species nodes, nested and root colours) and cost "
    "vectors including a float-infinite transfer cost. Each object x goes through X.from_dict(json.loads(json.dumps("
    "x.to_dict()))); trees (topology, child order, names, colour feature of every node), leaf assignment, costs, "
    "species mapping, syntenies, ordered flag, every node event and the cost must be equal, and to_dict() of the copy "
    "must reproduce those fields verbatim. Non-trivial object: carries a colour, or a non-default name scheme, or an "
    "infinite cost, or a labelling."
)
ASSUMPTIONS = [
    "node names are unique within each tree (the property's premise)",
    "the leaf_syntenies of the input embedded in an output are not compared (not among the fields the statement lists)",
]
BUDGET = {"quick": 900, "thorough": 3000}
COLORS = ["FF0000", "c0ffee", "#0000ff"]     # upper case, lower-case letters, a leading hash sign


def worker_init():
    sys.stderr = open(os.devnull, "w")


def name_schemes(O, S, leafmap):
    """name scheme id -> (onames, snames)"""
    out = {}
    out["default"] = (A.default_names(O, "o"), A.default_names(S, "s"))
    out["digits"] = ({v: str(100 + 3 * v) for v in range(O.n)}, {v: str(900 - 7 * v) for v in range(S.n)})
    out["underscore"] = ({v: (f"sp_{leafmap[v]}_gene_{v}" if not O.children[v] else f"anc_{v}_x") for v in range(O.n)},
                         {v: f"sp_{v}" if v % 2 else f"Sp__{v}_" for v in range(S.n)})
    # names that look like automatic labels, deliberately not in pre-order
    out["autolike"] = ({v: (f"O{(v + 3) % (O.n + 2)}" if O.children[v] else f"S{leafmap[v]}_{v}") for v in range(O.n)},
                       {v: f"S{(2 * v + 1) % (2 * S.n + 1)}" for v in range(S.n)})
    # distinct names that differ only by letter case inside one tree (and digits-as-suffix variants)
    def cased(prefix, v):
        base = prefix + "abcdefghijklmnop"[v // 2]
        return base.upper() if v % 2 else base
    out["casepairs"] = ({v: cased("g", v) for v in range(O.n)}, {v: cased("", v) for v in range(S.n)})
    # every object leaf carries, as the <species>_ prefix of its name, ANOTHER species leaf than the one it is assigned to
    # (in the other letter case): the explicit assignment of the serialised form must win over anything read off the names
    sl = list(S.leaves)
    other = {x: sl[(i + 1) % len(sl)] for i, x in enumerate(sl)}
    out["misleading"] = ({v: (f"N{v}" if O.children[v] else f"SP{other[leafmap[v]]}_{v}") for v in range(O.n)},
                         {v: f"sp{v}" for v in range(S.n)})
    return out


def colour_menu(O, S, full):
    """list of (ofeats, sfeats)"""
    out = [({}, {})]
    on = list(range(O.n))
    sn = list(range(S.n))
    maxo = 3 if full else 1
    for k in range(1, maxo + 1):
        for sub in itertools.combinations(on, k):
            out.append(({v: {"color": COLORS[i % 3]} for i, v in enumerate(sub)}, {}))
    for k in range(1, (2 if full else 1) + 1):
        for sub in itertools.combinations(sn, k):
            out.append(({}, {v: {"color": COLORS[(i + 1) % 3]} for i, v in enumerate(sub)}))
    out.append(({O.root: {"color": COLORS[0]}}, {S.root: {"color": COLORS[2]}}))
    # a parent and its child explicitly given the SAME colour, in both trees (letters-only hex value)
    if O.internal:
        a = O.internal[0]
        out.append(({a: {"color": "ABCDEF"}, O.children[a][0]: {"color": "ABCDEF"}},
                    ({S.root: {"color": "ABCDEF"}, S.children[S.root][-1]: {"color": "ABCDEF"}} if S.children[S.root] else {})))
    if not full and len(O.internal) >= 2:
        a, b = O.internal[0], O.internal[1]
        out.append(({a: {"color": COLORS[0]}, b: {"color": COLORS[1]}}, {}))   # nested colours
    return out


# ------------------------------------------------------------------ comparison
def tree_sig(tree):
    def rec(n):
        return (n.name, getattr(n, "color", None), tuple(rec(c) for c in n.children))
    return rec(tree)


def input_sig(inp):
    sig = {
        "object_tree": tree_sig(inp.object_tree),
        "species_tree": tree_sig(inp.species_lca.tree),
        "leaf_object_species": sorted((k.name, v.name) for k, v in inp.leaf_object_species.items()),
        "costs": sorted((k.name, float(v)) for k, v in inp.costs.items()),
    }
    return sig


def compare(x, y, is_output, is_super):
    """None or description of the first difference between object x and its round-tripped copy y"""
    xi, yi = (x.input, y.input) if is_output else (x, y)
    a, b = input_sig(xi), input_sig(yi)
    for k in a:
        if a[k] != b[k]:
            return f"{k} differs: {a[k]} -> {b[k]}"
    if not is_output:
        if is_super:
            sa = sorted((k.name, list(v)) for k, v in x.leaf_syntenies.items())
            sb = sorted((k.name, list(v)) for k, v in y.leaf_syntenies.items())
            if sa != sb:
                return f"leaf_syntenies differ: {sa} -> {sb}"
        return None
    ma = sorted((k.name, v.name) for k, v in x.object_species.items())
    mb = sorted((k.name, v.name) for k, v in y.object_species.items())
    if ma != mb:
        return f"object_species differs: {ma} -> {mb}"
    for n in y.object_species:
        if n.get_tree_root() is not y.input.object_tree:
            return "object_species of the copy refers to nodes outside its own tree"
    for n in y.object_species.values():
        if n.get_tree_root() is not y.input.species_lca.tree:
            return "object_species of the copy refers to species outside its own tree"
    if is_super:
        if x.ordered != y.ordered:
            return f"ordered flag {x.ordered} -> {y.ordered}"
        conv = (lambda s: list(s)) if x.ordered else (lambda s: sorted(s))
        sa = sorted((k.name, conv(v)) for k, v in x.syntenies.items())
        sb = sorted((k.name, conv(v)) for k, v in y.syntenies.items())
        if sa != sb:
            return f"syntenies differ: {sa} -> {sb}"
    ea = sorted((n.name, x.node_event(n).name) for n in x.input.object_tree.traverse())
    eb = sorted((n.name, y.node_event(n).name) for n in y.input.object_tree.traverse())
    if ea != eb:
        return f"events differ: {ea} -> {eb}"
    ca, cb = A.impl_cost(x.cost()), A.impl_cost(y.cost())
    if ca != cb:
        return f"cost {ca} -> {cb}"
    return None


def strip(d, is_output):
    """the fields of a dictionary form that the statement lists"""
    d = json.loads(json.dumps(d))
    if is_output and "leaf_syntenies" in d.get("input", {}):
        del d["input"]["leaf_syntenies"]
    return d


_PREVIOUS = []      # (object read back by the previous call of roundtrip in this process, its dictionary form at that time)


def roundtrip(x):
    """None or (subcheck, detail)"""
    is_output = isinstance(x, ReconciliationOutput)
    is_super = isinstance(x, (SuperReconciliationInput, SuperReconciliationOutput))
    cls = type(x)
    try:
        d1 = x.to_dict()
        text = json.dumps(d1)
        d_in = json.loads(text)
        y = cls.from_dict(d_in)
        if d_in != json.loads(text):
            return ("caller_dict_modified", f"{cls.__name__}.from_dict changed the dictionary it was given")
        bad = compare(x, y, is_output, is_super)
        if bad:
            return ("roundtrip", f"{cls.__name__}: {bad}")
        d2 = y.to_dict()
        # operation history across cases: the object read back by the PREVIOUS round trip of this process (other trees, often
        # other costs) must still serialise as it did then - objects read from different texts share nothing
        if _PREVIOUS:
            prev_obj, prev_dict = _PREVIOUS.pop()
            if json.dumps(prev_obj.to_dict(), sort_keys=True, default=str) != prev_dict:
                return ("earlier_result_changed", f"an object read back earlier in this process no longer serialises as it did before "
                                                  f"{cls.__name__}.from_dict was called again: {prev_dict[:200]} -> "
                                                  f"{json.dumps(prev_obj.to_dict(), sort_keys=True, default=str)[:200]}")
        if strip(d1, is_output) != strip(d2, is_output):
            return ("reserialise", f"{cls.__name__}: to_dict() of the copy differs: {json.dumps(strip(d1, is_output))[:300]} -> "
                    f"{json.dumps(strip(d2, is_output))[:300]}")
        # the same text read a SECOND time after the first copy was edited in place (colours added on both of its trees, its
        # object root renamed): the second copy must come from the text alone
        yin = y.input if is_output else y
        yin.species_lca.tree.add_feature("color", "ABCDEF")
        yin.object_tree.add_feature("color", "FEDCBA")
        yin.object_tree.name = yin.object_tree.name + "_edited"
        z = cls.from_dict(json.loads(text))
        bad = compare(x, z, is_output, is_super)
        if bad:
            return ("second_read", f"{cls.__name__}: the same text read again after the first copy was edited: {bad}")
        if strip(d1, is_output) != strip(z.to_dict(), is_output):
            return ("second_read", f"{cls.__name__}: the same text read again after the first copy was edited serialises differently")
        # remembered as it is NOW (after this function's own edits of y) for the next call
        _PREVIOUS.append((y, json.dumps(y.to_dict(), sort_keys=True, default=str)))
    except Exception as exc:
        return ("exception", f"{cls.__name__}: {type(exc).__name__}: {exc}\n{traceback.format_exc(limit=5)}")
    return None


# ------------------------------------------------------------------ object construction
def float_costs(costs):
    """cost dict with a *float* infinity (json-serialisable), as the statement says"""
    cd = A.cost_dict(costs)
    return {k: (float("inf") if v == A.inf else v) for k, v in cd.items()}


def build_objects(spec):
    """spec -> list of objects to round-trip (built fresh)"""
    O, S = T(spec["osh"]), T(spec["ssh"])
    leafmap = spec["leafmap"]
    onames, snames = name_schemes(O, S, leafmap)[spec["naming"]]
    ofe, sfe = spec["ofeats"], spec["sfeats"]
    costs = spec["costs"]
    fam = spec["family"]
    leafsyn = spec.get("leafsyn")
    inp, onode, snode = A.build_input(O, S, leafmap, costs, leafsyn, onames, snames, ofe, sfe, unordered=(fam == "unordered"))
    inp.costs.clear()
    inp.costs.update(float_costs(costs))
    objs = [inp]
    if fam == "ordered" and leafsyn:
        # the same input with the order of the root prescribed: leaf_syntenies then carries an entry for the root as well
        ro = ordered.root_orders(leafsyn)
        if ro:
            inp_r, _, _ = A.build_input(O, S, leafmap, costs, leafsyn, onames, snames, ofe, sfe, rootsyn=sorted(ro)[-1])
            inp_r.costs.clear()
            inp_r.costs.update(float_costs(costs))
            objs.append(inp_r)
    src = spec["source"]
    if src == "input":
        return objs
    if src == "model":
        m, lab = spec["mapping"], spec.get("labelling")
        if fam == "plain":
            objs.append(ReconciliationOutput(inp, {onode[v]: snode[s] for v, s in m.items()}))
        else:
            objs.append(SuperReconciliationOutput(
                input=inp, object_species={onode[v]: snode[s] for v, s in m.items()},
                syntenies={onode[v]: (list(x) if fam == "ordered" else set(x)) for v, x in lab.items()},
                ordered=(fam == "ordered")))
            if fam == "unordered":
                # the same unordered solution with its family sets written as LISTS in descending order (the API accepts
                # any iterable; "unordered" says how they are to be read, not how they were typed)
                objs.append(SuperReconciliationOutput(
                    input=inp, object_species={onode[v]: snode[s] for v, s in m.items()},
                    syntenies={onode[v]: sorted(x, reverse=True) for v, x in lab.items()}, ordered=False))
    else:
        algo = spec["algorithm"]
        if algo == "lca":
            objs.append(reconcile_lca(inp))
        elif algo in ("thl", "exh"):
            objs.extend((reconcile_thl if algo == "thl" else reconcile_exhaustive)(inp, A.POLICY["ALL"]))
        else:
            objs.extend(L.SOLVERS[algo][0](inp, A.POLICY["ALL"]))
    return objs


def check_spec(spec):
    try:
        objs = build_objects(spec)
    except Exception as exc:
        return ("exception", f"building/solving failed: {type(exc).__name__}: {exc}\n{traceback.format_exc(limit=5)}"), 0
    for x in objs:
        bad = roundtrip(x)
        if bad:
            return bad, len(objs)
    # history: the SAME objects are serialised again after their trees and costs were edited in place (a renamed
    # ancestor, a colour added and one changed, a unit cost raised); the dictionary form must follow the live object
    try:
        inp = objs[0]
        ot, st = inp.object_tree, inp.species_lca.tree
        ot.name = ot.name + "x"
        ot.add_feature("color", "123456")
        last = [n for n in st.traverse()][-1]
        last.add_feature("color", "654321")
        key = next(iter(inp.costs))
        inp.costs[key] = inp.costs[key] + 1
    except Exception as exc:
        return ("exception", f"in-place edit failed: {type(exc).__name__}: {exc}"), len(objs)
    for x in objs:
        bad = roundtrip(x)
        if bad:
            return ("edited_" + bad[0], "after an in-place edit of the trees / costs of an object serialised before: " + bad[1]), len(objs)
    return None, 2 * len(objs)


def spec_json(spec):
    d = dict(spec)
    d["leafmap"] = sorted(spec["leafmap"].items())
    d["costs"] = A.costs_to_json(spec["costs"])
    d["ofeats"] = sorted((k, v["color"]) for k, v in spec["ofeats"].items())
    d["sfeats"] = sorted((k, v["color"]) for k, v in spec["sfeats"].items())
    if spec.get("leafsyn") is not None:
        d["leafsyn"] = sorted((k, list(v)) for k, v in spec["leafsyn"].items())
    if spec.get("mapping") is not None:
        d["mapping"] = sorted(spec["mapping"].items())
    if spec.get("labelling") is not None:
        d["labelling"] = sorted((k, sorted(v) if isinstance(v, frozenset) else list(v)) for k, v in spec["labelling"].items())
    d["osh"], d["ssh"] = spec["osh"], spec["ssh"]
    return d


def spec_from_json(d):
    s = dict(d)
    s["osh"], s["ssh"] = shape_from_json(d["osh"]), shape_from_json(d["ssh"])
    s["leafmap"] = {int(k): int(v) for k, v in d["leafmap"]}
    s["costs"] = A.costs_from_json(d["costs"])
    s["ofeats"] = {int(k): {"color": c} for k, c in d["ofeats"]}
    s["sfeats"] = {int(k): {"color": c} for k, c in d["sfeats"]}
    if d.get("leafsyn") is not None:
        s["leafsyn"] = {int(k): tuple(v) for k, v in d["leafsyn"]}
    if d.get("mapping") is not None:
        s["mapping"] = {int(k): int(v) for k, v in d["mapping"]}
    if d.get("labelling") is not None:
        fam = d["family"]
        s["labelling"] = {int(k): (tuple(v) if fam == "ordered" else frozenset(v)) for k, v in d["labelling"]}
    return s


COSTS = [(0, 1, 1, 1, 1), (1, 2, INF, 1, 0), (3, 0, 0, 0, 2)]   # the last one: explicit zeros where the defaults are 1


def plan(tier, seed):
    out = []
    quick = tier == "quick"
    from ..refmodel.trees import schroeder_shapes
    for no in range(2, (4 if quick else 5) + 1):
        for ns in range(1, 4):
            for osh in schroeder_shapes(no):
                for ssh in schroeder_shapes(ns):
                    if T(osh).is_binary() and T(ssh).is_binary():
                        continue
                    out.append({"slice": "poly-inputs", "mode": "poly-input", "osh": osh, "ssh": ssh, "full_colours": False})
    for osh, ssh in spaces.shape_pairs(3, 3):
        k = max(1, spaces.count_assignments(osh, ssh) // 2)
        for i in range(k):
            out.append({"slice": "solver-outputs", "mode": "solver", "osh": osh, "ssh": ssh, "full_colours": True, "part": (i, k)})
    for osh, ssh in (spaces.shape_pairs(3, 3) if quick else spaces.shape_pairs(4, 3)):
        k = max(1, spaces.count_assignments(osh, ssh) // 6)
        for i in range(k):
            out.append({"slice": "model-mappings", "mode": "model-plain", "osh": osh, "ssh": ssh, "part": (i, k),
                        "full_colours": spaces.shape_leaves(osh) <= 3})
    for osh, ssh in (spaces.shape_pairs(3, 2) if quick else spaces.shape_pairs(3, 3)):
        out += L.split_plan("model-labellings", [(osh, ssh)], spaces.unordered_syntenies(2), 12,
                            {"mode": "model-lab", "full_colours": False})
    return out


def run_shard(shard, tier, seed):
    osh, ssh = shard["osh"], shard["ssh"]
    O, S = T(osh), T(ssh)
    n_eval = nt = vtotal = 0
    viols = []
    samples = []
    counters = {"objects_roundtripped": 0}

    def run(spec):
        nonlocal n_eval, nt, vtotal
        n_eval += 1
        bad, k = check_spec(spec)
        counters["objects_roundtripped"] += k
        if spec["ofeats"] or spec["sfeats"] or spec["naming"] != "default" or spec["costs"][2] == INF or spec["family"] != "plain":
            nt += 1
        if bad:
            vtotal += 1
            if len(viols) < 6 and not any(v["subcheck"] == bad[0] for v in viols):
                viols.append({"property": PROP, "subcheck": bad[0], "case": spec_json(spec), "detail": bad[1]})
        if not samples and (spec["ofeats"] or spec["sfeats"]):
            samples.append(spec_json(spec))

    mode = shard["mode"]
    if mode == "poly-input":
        # multifurcating INPUTS (solutions are always binary): child order of every node must survive
        schemes = list(name_schemes(O, S, {v: S.leaves[0] for v in O.leaves}))
        cols = colour_menu(O, S, False)[:4]
        for ai, leafmap in enumerate(spaces.assignments(O, S)):
            if ai >= 4:
                break
            for ci, (ofe, sfe) in enumerate(cols):
                for fam, leafsyn in (("plain", None), ("ordered", {v: ("a", "b")[: 1 + i % 2] for i, v in enumerate(O.leaves)}),
                                     ("unordered", {v: ("a", "b")[i % 2:] for i, v in enumerate(O.leaves)})):
                    run({"source": "input", "family": fam, "osh": osh, "ssh": ssh, "leafmap": leafmap, "leafsyn": leafsyn,
                         "naming": schemes[(ai + ci) % len(schemes)], "ofeats": ofe, "sfeats": sfe, "costs": COSTS[ci % 3]})
        return {"evaluations": n_eval, "nontrivial": nt, "samples": samples, "violations": viols, "violations_total": vtotal,
                "counters": counters}
    colours = colour_menu(O, S, shard["full_colours"])
    schemes = list(name_schemes(O, S, {v: S.leaves[0] for v in O.leaves}))
    if mode == "solver":
        o2, u2 = spaces.ordered_syntenies(2), spaces.unordered_syntenies(2)
        part = shard["part"]
        for ai, leafmap in enumerate(spaces.assignments(O, S)):
            if ai % part[1] != part[0]:
                continue
            for algo in ("lca", "thl", "exh", "ext_spfs", "base_spfs", "superdtl", "base_uspfs"):
                fam = "plain" if algo in ("lca", "thl", "exh") else L.SOLVERS[algo][1]
                if fam == "plain":
                    syns = [None]
                else:
                    menu = o2 if fam == "ordered" else u2
                    syns = [dict(zip(O.leaves, t)) for t in spaces.synteny_tuples(len(O.leaves), menu)]
                    if fam == "ordered":
                        syns = [s for s in syns if ordered.root_orders(s)]
                for leafsyn in syns:
                    # rotate through naming x colour menus so that every (algorithm, scheme) and (algorithm, colouring) pair occurs
                    for ci, (ofe, sfe) in enumerate(colours[:6] if leafsyn is not None else colours[:16]):
                        naming = schemes[ci % len(schemes)]
                        run({"source": "solver", "algorithm": algo, "family": fam, "osh": osh, "ssh": ssh, "leafmap": leafmap,
                             "leafsyn": leafsyn, "naming": naming, "ofeats": ofe, "sfeats": sfe, "costs": COSTS[ci % 3]})
    elif mode == "model-plain":
        part = shard["part"]
        for i, leafmap in enumerate(spaces.assignments(O, S)):
            if i % part[1] != part[0]:
                continue
            for m, _ in dtl.valid_mappings(O, S, leafmap):
                for ci, (ofe, sfe) in enumerate(colours):
                    for naming in (schemes if ci < 2 else [schemes[ci % len(schemes)]]):
                        run({"source": "model", "family": "plain", "osh": osh, "ssh": ssh, "leafmap": leafmap, "mapping": m,
                             "naming": naming, "ofeats": ofe, "sfeats": sfe, "costs": COSTS[ci % 3]})
    else:
        for leafmap, leafsyn in L.labelled_inputs(O, S, shard["menu"], shard.get("part")):
            maps = [m for m, _ in dtl.valid_mappings(O, S, leafmap)]
            ulabs = list(unordered.labellings(O, leafsyn))
            # ordered labellings: every node any subsequence of its parent's containing what its leaves need is too many;
            # use the optimal ones of the ordered oracle plus the all-root labelling
            olabs = []
            ros = ordered.root_orders(leafsyn)
            if ros:
                pi = ros[0]
                lab = {v: (tuple(leafsyn[v]) if not O.children[v] else pi) for v in range(O.n)}
                olabs.append(lab)
                _, keys = ordered.bellman(O, S, leafmap, leafsyn, (0, 1, 1, 1, 1))
                for mk, lk in list(sorted(keys))[:3]:
                    olabs.append(dict(lk))
            for ci, (ofe, sfe) in enumerate(colours[:6]):
                naming = schemes[ci % len(schemes)]
                for m in maps:
                    for lab in ulabs:
                        run({"source": "model", "family": "unordered", "osh": osh, "ssh": ssh, "leafmap": leafmap, "leafsyn": leafsyn,
                             "mapping": m, "labelling": lab, "naming": naming, "ofeats": ofe, "sfeats": sfe, "costs": COSTS[ci % 3]})
                    for lab in olabs:
                        run({"source": "model", "family": "ordered", "osh": osh, "ssh": ssh, "leafmap": leafmap, "leafsyn": leafsyn,
                             "mapping": m, "labelling": lab, "naming": naming, "ofeats": ofe, "sfeats": sfe, "costs": COSTS[ci % 3]})
                    if olabs and ci == 0:
                        # an ordered solution in which one leaf holds NO family at all (an empty synteny is a subsequence of
                        # everything)
                        last = O.leaves[-1]
                        run({"source": "model", "family": "ordered", "osh": osh, "ssh": ssh, "leafmap": leafmap,
                             "leafsyn": {**leafsyn, last: ()}, "mapping": m, "labelling": {**olabs[0], last: ()},
                             "naming": naming, "ofeats": ofe, "sfeats": sfe, "costs": COSTS[ci % 3]})
    return {"evaluations": n_eval, "nontrivial": nt, "samples": samples, "violations": viols, "violations_total": vtotal,
            "counters": counters}


def replay(v):
    spec = spec_from_json(v["case"])
    bad, _ = check_spec(spec)
    return {"violated": bool(bad), "detail": (bad[0] + ": " + bad[1]) if bad else None}
