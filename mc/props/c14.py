"""C14 - layouts are geometrically coherent and orientation-symmetric."""
import itertools
import traceback

from .. import adapters as A
from .. import render_common as R
from .. import spaces, stubs
from ..refmodel import dtl
from ..refmodel.trees import T
from superrec2.render import layout as layout_mod, tikz as tikz_mod
from superrec2.render.model import DrawParams, PseudoGene, Orientation
from superrec2.model.reconciliation import NodeEvent, EdgeEvent

PROP = "C14"
LEVEL = "exploration"
EPS = 1e-9
RULE = (
    "same reconciliations as C13 (every valid mapping of every binary input of the slice, unlabelled and with a labelling) "
    "x a stub menu {all 1x1, all 100x100, hash-varied 1-100 with two salts, tall-thin, short-wide} x a DrawParams menu "
    "{defaults; each numeric layout parameter at 0.5 and at 40 one at a time; all small; all large}, rotating the two menus "
    "so that every (stub, params) pair occurs on every input shape. Verdict: all coordinates finite; sibling species boxes "
    "do not overlap and lie inside their parent's; no two trunks overlap; every gene referenced by a branch has the anchor / branch the renderer will look up (direct lookup and by "
    "rendering); horizontal layout = transpose of the vertical layout computed with the width/height-swapped stub (boxes, "
    "trunks, anchors, branch order, fork thickness, tolerance 1e-9); computing twice gives identical layouts. "
    "Non-trivial: reconciliation with a loss or transfer, or non-default parameters."
)
ASSUMPTIONS = ["continuous parameters covered on finite menus only", "stub TeX measurer"]
BUDGET = {"quick": 900, "thorough": 3000}
STUBS = [("unit", 0), ("big", 0), ("hash", 1), ("hash", 2), ("tall", 3), ("wide", 4)]
NUMERIC = ("species_branch_padding", "gene_branch_spacing", "trunk_overhead", "min_subtree_spacing", "level_spacing")


def params_menu():
    out = [("defaults", {})]
    for name in NUMERIC:
        out.append((f"{name}=0.5", {name: 0.5}))
        out.append((f"{name}=40", {name: 40}))
    out.append(("all_small", {n: 0.5 for n in NUMERIC}))
    out.append(("all_large", {n: 40 for n in NUMERIC}))
    return out


PARAMS = params_menu()


def plan(tier, seed):
    # quick: <=4 x <=3 leaves plus few-leaved objects on deeper species trees (4-6 leaves)
    pairs = (spaces.shape_pairs(4, 3) + spaces.shape_pairs(3, 4, min_sp=4) + spaces.shape_pairs(2, 6, min_sp=5) if tier == "quick"
             else spaces.shape_pairs(5, 3) + spaces.shape_pairs(4, 4, min_sp=4) + spaces.shape_pairs(3, 6, min_sp=5))
    out = []
    for osh, ssh in pairs:
        k = max(1, spaces.count_assignments(osh, ssh) // 8)
        for i in range(k):
            out.append({"slice": "P4x3+P3x4+P2x6" if tier == "quick" else "P5x3+P4x4+P3x6", "osh": osh, "ssh": ssh, "part": (i, k)})
    return out


def overlap(a, b):
    return a.x < b.x + b.w - EPS and b.x < a.x + a.w - EPS and a.y < b.y + b.h - EPS and b.y < a.y + a.h - EPS


def inside(a, b):
    return a.x >= b.x - EPS and a.y >= b.y - EPS and a.x + a.w <= b.x + b.w + EPS and a.y + a.h <= b.y + b.h + EPS


def snapshot(lay, order, gene_id):
    """layout -> comparable structure; genes identified by gene_id (names / pseudo-gene ordinal)"""
    out = []
    for sp in order:
        sl = lay[sp]
        br = []
        for g, b in sl.branches.items():
            br.append((gene_id(g), b.kind.name, tuple(b.rect), tuple(b.anchor_parent), tuple(b.anchor_left),
                       tuple(b.anchor_right), tuple(b.anchor_child), b.name, b.color,
                       None if b.left is None else gene_id(b.left), None if b.right is None else gene_id(b.right)))
        anc = sorted((gene_id(g), tuple(p)) for g, p in sl.anchors.items())
        out.append((sp.name, tuple(sl.rect), tuple(sl.trunk), sl.fork_thickness, anc, br))
    return out


def make_gene_id(lay, order):
    ids = {}
    k = 0
    for sp in order:
        for g in lay[sp].branches:
            if isinstance(g, PseudoGene):
                ids[g] = f"loss#{k}"
                k += 1
    return lambda g: ids[g] if isinstance(g, PseudoGene) else g.name


def tr_pt(p):
    return (p[1], p[0])


def tr_rect(r):
    return (r[1], r[0], r[3], r[2])


def close(a, b):
    if isinstance(a, (tuple, list)):
        return len(a) == len(b) and all(close(x, y) for x, y in zip(a, b))
    if isinstance(a, float) or isinstance(b, float):
        return abs(a - b) <= 1e-9 * max(1.0, abs(a), abs(b))
    return a == b


def transposed(snap):
    out = []
    for name, rect, trunk, fork, anc, br in snap:
        out.append((name, tr_rect(rect), tr_rect(trunk), fork, [(g, tr_pt(p)) for g, p in anc],
                    [(g, k, tr_rect(r), tr_pt(ap), tr_pt(al), tr_pt(ar), tr_pt(ac), nm, col, l, rr)
                     for g, k, r, ap, al, ar, ac, nm, col, l, rr in br]))
    return out


def compute(O, S, leafmap, m, labmode, orient, stubspec, pkw, swap=False):
    lab = None if labmode == "none" else R.labellings_for(O, labmode)
    stubs.install(stubs.Stub(stubspec[0], stubspec[1], swap=swap))
    rec, onode, snode, on, sn = R.build_rec(O, S, leafmap, m, lab)
    params = DrawParams(orientation=R.ORIENT[orient], **pkw)
    lay = layout_mod.compute(rec, params)
    return rec, lay, params, onode, snode


def check_rec(O, S, leafmap, m, labmode, stubspec, pname):
    pkw = dict(PARAMS)[pname]
    try:
        snaps = {}
        for orient in ("V", "H"):
            rec, lay, params, onode, snode = compute(O, S, leafmap, m, labmode, orient, stubspec, pkw)
            order = list(snode[S.root].traverse("preorder"))
            # ---- finiteness
            for sp in order:
                sl = lay[sp]
                nums = list(sl.rect) + list(sl.trunk) + [sl.fork_thickness]
                for p in sl.anchors.values():
                    nums += list(p)
                for b in sl.branches.values():
                    nums += list(b.rect) + list(b.anchor_parent) + list(b.anchor_left) + list(b.anchor_right) + list(b.anchor_child)
                if not all(R.finite(x) for x in nums):
                    return ("not_finite", f"{orient}: non-finite coordinate in species {sp.name}")
            # ---- boxes
            for sp in order:
                if not sp.is_leaf():
                    a, b = sp.children
                    if overlap(lay[a].rect, lay[b].rect):
                        return ("sibling_overlap", f"{orient}: boxes of {a.name} and {b.name} overlap: {lay[a].rect} {lay[b].rect}")
                    for c in (a, b):
                        if not inside(lay[c].rect, lay[sp].rect):
                            return ("child_outside", f"{orient}: box of {c.name} {lay[c].rect} not inside {sp.name} {lay[sp].rect}")
            for x, y in itertools.combinations(order, 2):
                if overlap(lay[x].trunk, lay[y].trunk):
                    return ("trunk_overlap", f"{orient}: trunks of {x.name} and {y.name} overlap: {lay[x].trunk} {lay[y].trunk}")
            # ---- references
            mapping = rec.object_species
            for sp in order:
                sl = lay[sp]
                kids = sp.children if not sp.is_leaf() else (None, None)
                for g, b in sl.branches.items():
                    if b.kind == EdgeEvent.FULL_LOSS:
                        if (b.left is None) == (b.right is None):
                            return ("loss_children", f"{orient}: loss branch with left={b.left} right={b.right}")
                        side, gene = (kids[0], b.left) if b.right is None else (kids[1], b.right)
                        if side is None or gene not in lay[side].anchors:
                            return ("dangling_reference", f"{orient}: loss in {sp.name} keeps a gene with no anchor in the child species")
                    elif b.kind == NodeEvent.SPECIATION:
                        if b.left not in lay[kids[0]].anchors or b.right not in lay[kids[1]].anchors:
                            return ("dangling_reference", f"{orient}: speciation {g.name} in {sp.name}: child anchors missing")
                    elif b.kind == NodeEvent.DUPLICATION:
                        if b.left not in sl.branches or b.right not in sl.branches:
                            return ("dangling_reference", f"{orient}: duplication {g.name} in {sp.name}: child branches missing")
                    elif b.kind == NodeEvent.HORIZONTAL_TRANSFER:
                        if b.left not in sl.branches or b.right not in lay[mapping[b.right]].anchors:
                            return ("dangling_reference", f"{orient}: transfer {g.name} in {sp.name}: conserved branch / foreign anchor missing")
            tikz_mod.render(rec, lay, params)
            snaps[orient] = snapshot(lay, order, make_gene_id(lay, order))
            # ---- determinism of the computation
            rec2, lay2, _, _, snode2 = compute(O, S, leafmap, m, labmode, orient, stubspec, pkw)
            order2 = list(snode2[S.root].traverse("preorder"))
            if snapshot(lay2, order2, make_gene_id(lay2, order2)) != snaps[orient]:
                return ("not_deterministic", f"{orient}: two computations give different layouts")
            # ... and on the SAME reconciliation object (the first computation must leave nothing behind: no reordered
            # children, no features on the trees that change a second run)
            stubs.install(stubs.Stub(stubspec[0], stubspec[1]))
            lay_again = layout_mod.compute(rec, params)
            if snapshot(lay_again, order, make_gene_id(lay_again, order)) != snaps[orient]:
                return ("not_deterministic", f"{orient}: computing the layout a second time on the same object gives a different layout")
            if orient == "V":
                rec_first, order_first = rec, order
        # the object laid out vertically (twice) is now laid out horizontally: same result as on a fresh object
        stubs.install(stubs.Stub(stubspec[0], stubspec[1]))
        lay_cross = layout_mod.compute(rec_first, DrawParams(orientation=R.ORIENT["H"], **pkw))
        if snapshot(lay_cross, order_first, make_gene_id(lay_cross, order_first)) != snaps["H"]:
            return ("not_deterministic", "horizontal layout of an object already laid out vertically differs from the horizontal "
                                         "layout of a fresh object")
        # ---- orientation symmetry: horizontal == transpose(vertical computed with swapped sizes)
        rec3, lay3, _, _, snode3 = compute(O, S, leafmap, m, labmode, "V", stubspec, pkw, swap=True)
        order3 = list(snode3[S.root].traverse("preorder"))
        want = transposed(snapshot(lay3, order3, make_gene_id(lay3, order3)))
        got = snaps["H"]
        if not close(got, want):
            for a, b in zip(got, want):
                if not close(a, b):
                    return ("orientation_symmetry", f"species {a[0]}: horizontal {str(a[1:4])} vs transposed vertical {str(b[1:4])}"
                            f"; first differing part: {next((str(x)[:150] + ' vs ' + str(y)[:150]) for x, y in zip(a, b) if not close(x, y))}")
            return ("orientation_symmetry", "layouts differ in length")
    except Exception as exc:
        return ("exception", f"{type(exc).__name__}: {exc}\n{traceback.format_exc(limit=6)}")
    return None


def run_shard(shard, tier, seed):
    osh, ssh = shard["osh"], shard["ssh"]
    O, S = T(osh), T(ssh)
    part = shard["part"]
    n_eval = nt = vtotal = 0
    viols = []
    samples = []
    idx = -1
    ai = -1
    last_lm = None
    for leafmap, m, evs in R.valid_recs(O, S):
        if leafmap != last_lm:
            ai += 1
            last_lm = leafmap
        if ai % part[1] != part[0]:
            continue
        idx += 1
        is_nt = any(e[0] == "T" or e[1] for e in evs.values())
        combos = [(idx + seed) % (len(STUBS) * len(PARAMS)), (7 * idx + 3 + seed) % (len(STUBS) * len(PARAMS))]
        for j, combo in enumerate(combos):
            stubspec = STUBS[combo % len(STUBS)]
            pname = PARAMS[combo // len(STUBS)][0]
            labmode = ("none", "losses")[(idx + j) % 2]
            n_eval += 1
            if is_nt or pname != "defaults":
                nt += 1
            bad = check_rec(O, S, leafmap, m, labmode, stubspec, pname)
            case = R.rec_case(osh, ssh, leafmap, m, labelling=labmode, stub=list(stubspec), params=pname)
            if bad:
                vtotal += 1
                if len(viols) < 6 and not any(v["subcheck"] == bad[0] for v in viols):
                    viols.append({"property": PROP, "subcheck": bad[0], "case": case, "detail": bad[1]})
            if not samples and is_nt:
                samples.append(case)
    return {"evaluations": n_eval, "nontrivial": nt, "samples": samples, "violations": viols, "violations_total": vtotal,
            "counters": {"layouts_computed": n_eval * 5}}


def replay(v):
    c = v["case"]
    O, S, leafmap, m = R.rec_from_case(c)
    bad = check_rec(O, S, leafmap, m, c["labelling"], tuple(c["stub"]), c["params"])
    stubs.restore()
    return {"violated": bool(bad), "detail": (bad[0] + ": " + bad[1]) if bad else None}
