"""C16 - a DP entry holds the optimum and the tags of the optimal candidates.

E1 explicit-state explorer: breadth-first search over the reachable states of
real `Entry` objects / table cells, one real `update`/`__setitem__` call per
transition, with the reference model (refmodel.dpentry) run in lock-step; plus
a stateless pass over all update histories up to a depth, split into batches in
every way, replayed on fresh objects.
"""
import itertools

from ..refmodel.dpentry import RefEntry, check_observation, INF
from .. import adapters  # noqa: F401  (sets sys.path for superrec2)
from infinity import inf, is_infinite
from superrec2.utils.dynamic_programming import (
    Candidate,
    DictDimension,
    ListDimension,
    Entry,
    MergePolicy,
    RetentionPolicy,
    Table,
)

LEVEL = "model_checking"
RULE = (
    "BFS over reachable (real object state, reference state) pairs; a state is the complete instance "
    "dictionary of the real Entry (or the cell's observable state plus the underlying entry's dictionary) "
    "paired with (optimum, set of optimal tags); transitions are update(*batch) for every batch of <= B "
    "candidates over values {0,1,2} x tags {None,'a','b'} (and table[...] = c); stateless pass: every "
    "history of depth D x every split into batches x 6 policy pairs replayed on fresh objects. "
    "distinct_nontrivial = distinct product states in which a tag set is non-empty or the entry was "
    "improved at least once (BFS) ; combine: every pair of reachable states x 8 combinators (three of them with a tag-dependent value, one untagged)."
)
ASSUMPTIONS = [
    "CPython semantics; infinity package's inf ordering",
    "reference model refmodel/dpentry.py (optimum and optimal-tag set of the offered candidates)",
    "tags are truthy hashable values (the implementation documents None as 'no tag')",
]
BUDGET = {"quick": 600, "thorough": 1500}

VALUES = (0, 1, 2)
TAGS = (None, "a", "b")
ALPHABET = [(v, t) for v in VALUES for t in TAGS]
MERGES = ("MIN", "MAX")
RETENTIONS = ("NONE", "ANY", "ALL")

OBJECTS = ("entry", "entry_init", "entry_snapshot", "table_entry", "t1dict", "t1list", "t2", "t3", "t3mixed", "t2ll", "t3ll")
ADDR = {
    "t1dict": ((DictDimension,), ("k",)),
    "t1list": ((lambda: ListDimension(2),), (1,)),
    "t2": ((DictDimension, lambda: ListDimension(2)), ("x", 1)),
    "t3": ((DictDimension, DictDimension, DictDimension), ("x", "y", "z")),
    "t3mixed": ((lambda: ListDimension(2), DictDimension, lambda: ListDimension(3)), (1, "y", 2)),
    # two leading list dimensions: the other cell differs in the FIRST index only (rows must not be shared)
    "t2ll": ((lambda: ListDimension(2), lambda: ListDimension(2)), (1, 1)),
    "t3ll": ((lambda: ListDimension(2), lambda: ListDimension(2), DictDimension), (1, 0, "z")),
}
OTHER_ADDR = {
    "t1dict": ("j",),
    "t1list": (0,),
    "t2": ("x", 0),
    "t3": ("x", "y", "w"),
    "t3mixed": (1, "y", 0),
    "t2ll": (0, 1),
    "t3ll": (0, 0, "z"),
}
INITS = {
    "NONE": [(1, [])],
    "ANY": [(1, []), (1, ["a"])],
    "ALL": [(1, []), (1, ["a"]), (1, ["a", "b"]), (2, ["b"])],
}


def cand(c):
    return Candidate(c[0], c[1])


class Subject:
    """A fresh real object plus its reference model."""

    def __init__(self, kind, merge, retention, init=None):
        self.kind = kind
        self.merge = merge
        self.retention = retention
        mp_, rp = MergePolicy[merge], RetentionPolicy[retention]
        self.table = None
        if kind == "entry":
            self.entry = Entry(mp_, rp)
            self.ref = RefEntry(merge)
        elif kind == "entry_init":
            self.entry = Entry(init[0], list(init[1]), mp_, rp)
            self.ref = RefEntry(merge, init)
        elif kind == "entry_snapshot":
            # a copy of another entry made through the (value, infos) constructor, given the very set that infos() returns:
            # the two entries must live separate lives from then on
            self.source = Entry(init[0], list(init[1]), mp_, rp)
            self.source_before = (numkey(self.source.value()), frozenset(self.source.infos()))
            self.entry = Entry(self.source.value(), self.source.infos(), mp_, rp)
            self.ref = RefEntry(merge, init)
        elif kind == "table_entry":
            tab = Table((DictDimension(),), mp_, rp)
            if init is None:
                self.entry = tab.entry()
                self.ref = RefEntry(merge)
            else:
                self.entry = tab.entry(init[0], list(init[1]))
                self.ref = RefEntry(merge, init)
        else:
            dims, addr = ADDR[kind]
            # the caller builds its dimensions once, as a LIST, and has already used that list for another table
            dim_list = [d() for d in dims]
            Table(dim_list, mp_, rp)
            self.table = Table(dim_list, mp_, rp)
            self.addr = addr
            self.other = OTHER_ADDR[kind]
            self.ref = RefEntry(merge)
            self.ref_other = RefEntry(merge)
            # a handle on the cell taken (and read) before anything is written and kept for the whole history: it must
            # keep showing the cell, whichever route later writes go through
            self.handle = self.cell()
            self.handle.value()
            self.handle.infos()

    def cell(self, addr=None):
        if self.table is None:
            return self.entry
        x = self.table
        for k in (addr or self.addr):
            x = x[k]
        return x

    def apply(self, op):
        """op = ["update", batch] | ["set", cand] | ["update_other", batch]"""
        name, arg = op[0], op[1]
        if name == "update":
            self.cell().update(*[cand(c) for c in arg])
            for c in arg:
                self.ref.offer(c[0], c[1])
        elif name == "set":
            x = self.table
            for k in self.addr[:-1]:
                x = x[k]
            x[self.addr[-1]] = cand(arg)
            self.ref.offer(arg[0], arg[1])
        elif name == "update_handle":
            self.handle.update(*[cand(c) for c in arg])
            for c in arg:
                self.ref.offer(c[0], c[1])
        elif name == "update_other":
            self.cell(self.other).update(*[cand(c) for c in arg])
            for c in arg:
                self.ref_other.offer(c[0], c[1])
        else:
            raise ValueError(name)

    def _underlying(self, addr):
        """instance dictionary of the real entry behind a table cell (best effort)"""
        try:
            x = self.table._table
            for k in addr:
                if isinstance(x, dict) and k not in x:
                    return None
                x = x[k]
            if x is None:
                return None
            return canon_vars(x)
        except Exception:
            return "?"

    def real_state(self):
        if self.table is None:
            return canon_vars(self.entry)
        out = []
        for addr in (self.addr, self.other):
            c = self.cell(addr)
            out.append((numkey(c.value()), frozenset(c.infos()), self._underlying(addr)))
        return tuple(out)

    def ref_state(self):
        if self.table is None:
            return self.ref.state()
        return (self.ref.state(), self.ref_other.state())

    def check(self):
        """invariant; returns None or a discrepancy string"""
        pairs = [(self.cell(), self.ref)]
        if self.kind == "entry_snapshot":
            now = (numkey(self.source.value()), frozenset(self.source.infos()))
            if now != self.source_before:
                return f"the entry this one was copied from changed from {self.source_before} to {now}"
        if self.table is not None:
            pairs.append((self.cell(self.other), self.ref_other))
            pairs.append((self.handle, self.ref))
        for c, ref in pairs:
            opt, tags = ref.state()
            value = c.value()
            infos = c.infos()
            d = check_observation(self.merge, self.retention, opt, tags, numkey(value), infos)
            if d:
                return d
            if bool(c.is_infinite()) != (opt in (INF, -INF)):
                return f"is_infinite()={c.is_infinite()} with optimum {opt}"
            if len(c) != len(infos):
                return f"len()={len(c)} but {len(infos)} tags"
            info = c.info()
            if infos:
                if info not in infos:
                    return f"info()={info!r} not among tags {sorted(infos)}"
            elif info is not None:
                return f"info()={info!r} with no tags"
            listed = sorted((numkey(x.value), x.info) for x in c)
            if listed != sorted((numkey(value), t) for t in infos):
                return f"iteration yields {listed}"
        return None


def numkey(x):
    try:
        if is_infinite(x):
            return INF if x > 0 else -INF
    except Exception:
        pass
    return x


def canon_vars(obj):
    out = []
    for k, v in sorted(vars(obj).items()):
        if isinstance(v, (set, frozenset)):
            v = ("set", tuple(sorted(map(repr, v))))
        elif hasattr(v, "name") and not isinstance(v, str):
            v = v.name
        else:
            v = repr(numkey(v))
        out.append((k, v))
    return tuple(out)


def batches(maxlen):
    for k in range(1, maxlen + 1):
        yield from itertools.product(ALPHABET, repeat=k)


def operations(kind, maxbatch):
    ops = [["update", list(b)] for b in batches(maxbatch)]
    if kind in ADDR:
        ops += [["set", list(c)] for c in ALPHABET]
        ops += [["update_other", [list(c)]] for c in ALPHABET]
        ops += [["update_handle", [list(c)]] for c in ALPHABET]
    return ops


class BrokenSubject:
    """stands for an object that could not even be driven through its history (a cell that is not an entry, an operation that
    raises): check() reports it as a discrepancy instead of letting the exception escape as a harness error"""

    def __init__(self, what):
        self.what = what
        self.entry = None

    def check(self):
        return self.what

    def real_state(self):
        return ("broken", self.what)

    def ref_state(self):
        return ("broken",)

    def cell(self, addr=None):
        raise RuntimeError(self.what)


def build(kind, merge, retention, init, history):
    try:
        s = Subject(kind, merge, retention, init)
        for op in history:
            s.apply(op)
        s.check()
    except (AttributeError, TypeError, KeyError, IndexError) as exc:
        return BrokenSubject(f"{kind} ({merge}/{retention}) could not be driven through {history}: {type(exc).__name__}: {exc}")
    return s


def describe(kind, merge, retention, init, history):
    return {"kind": "history", "object": kind, "merge": merge, "retention": retention,
            "init": init, "history": history}


# --------------------------------------------------------------------------


def plan(tier, seed):
    shards = []
    maxbatch = 2 if tier == "quick" else 3
    for merge in MERGES:
        for ret in RETENTIONS:
            for kind in OBJECTS:
                inits = [None]
                if kind in ("entry_init", "entry_snapshot"):
                    inits = INITS[ret]
                elif kind == "table_entry":
                    inits = [None] + INITS[ret][:2]
                for init in inits:
                    mb = maxbatch
                    if kind in ADDR and kind not in ("t1dict", "t3"):
                        mb = min(mb, 2)
                    shards.append({"slice": "bfs", "mode": "bfs", "merge": merge, "retention": ret,
                                   "object": kind, "init": init, "maxbatch": mb})
            shards.append({"slice": "combine", "mode": "combine", "merge": merge, "retention": ret})
            depth = 4 if tier == "quick" else 5
            for first in ALPHABET:
                shards.append({"slice": "stateless", "mode": "stateless", "merge": merge, "retention": ret,
                               "first": list(first), "depth": depth})
    return shards


def run_shard(shard, tier, seed):
    try:
        return {"bfs": run_bfs, "combine": run_combine, "stateless": run_stateless}[shard["mode"]](shard)
    except (AttributeError, TypeError, KeyError, IndexError, RuntimeError) as exc:
        # on the unchanged package every object of this check can be built, indexed, updated and read; an exception of these
        # kinds while driving one means that a table or entry no longer behaves as one (e.g. a cell that is not an entry)
        import traceback as _tb
        return {"evaluations": 1, "nontrivial": 0, "samples": [], "violations_total": 1,
                "violations": [viol({"kind": "shard", "shard": shard}, "undrivable",
                                    f"{type(exc).__name__}: {exc}\n{_tb.format_exc(limit=4)}")]}


def run_bfs(shard):
    kind, merge, ret, init = shard["object"], shard["merge"], shard["retention"], shard["init"]
    ops = operations(kind, shard["maxbatch"])
    viols = []
    s0 = build(kind, merge, ret, init, [])
    d = s0.check()
    if d:
        viols.append(viol(describe(kind, merge, ret, init, []), "invariant", d))
    seen = {(s0.real_state(), s0.ref_state()): []}
    frontier = [[]]
    transitions = 0
    nontrivial = 0
    samples = []
    while frontier:
        nxt = []
        for hist in frontier:
            for op in ops:
                h2 = hist + [op]
                s = build(kind, merge, ret, init, h2)  # fresh real object, history replayed
                transitions += 1
                d = s.check()
                key = (s.real_state(), s.ref_state())
                if d:
                    if len(viols) < 8:
                        viols.append(viol(describe(kind, merge, ret, init, h2), "invariant", d))
                    continue  # do not expand states that already violate the invariant
                if key not in seen:
                    seen[key] = h2
                    nxt.append(h2)
        frontier = nxt
    for key, hist in seen.items():
        if hist:
            nontrivial += 1
    for key, hist in list(seen.items())[:1] + list(seen.items())[-1:]:
        samples.append({"object": kind, "merge": merge, "retention": ret, "init": init,
                        "shortest_history": hist, "state": repr(key)[:300]})
    return {"evaluations": transitions, "states": len(seen), "transitions": transitions, "traces": transitions,
            "nontrivial": nontrivial, "samples": samples, "violations": viols,
            "counters": {"bfs_states": len(seen), "bfs_transitions": transitions}}


def reachable_entries(merge, ret):
    """histories (with init) reaching every distinct state of stand-alone entries"""
    out = []
    for kind, inits in (("entry", [None]), ("entry_init", INITS[ret])):
        for init in inits:
            ops = operations(kind, 1)
            seen = {}
            s0 = build(kind, merge, ret, init, [])
            seen[(s0.real_state(), s0.ref_state())] = []
            frontier = [[]]
            while frontier:
                nxt = []
                for hist in frontier:
                    for op in ops:
                        h2 = hist + [op]
                        s = build(kind, merge, ret, init, h2)
                        key = (s.real_state(), s.ref_state())
                        if s.check() is None and key not in seen:
                            seen[key] = h2
                            nxt.append(h2)
                frontier = nxt
            out.extend((kind, init, h) for h in seen.values())
    return out


COMBINATORS = {
    "sum": lambda l, r: Candidate(l.value + r.value, (l.info, r.info)),
    "max": lambda l, r: Candidate(max(l.value, r.value), (l.info, r.info)),
    "first": lambda l, r: Candidate(l.value, l.info),
    "sum_right_tag": lambda l, r: Candidate(l.value + r.value, r.info),
    # combinators whose VALUE depends on the tags of the pair (a same-tag penalty, a bonus for one particular pair):
    # the pairs of retained candidates are then no longer tied, so "optimum over all pairs" is not "any pair"
    "sum_same_tag_penalty": lambda l, r: Candidate(l.value + r.value + (1 if l.info == r.info else 0), (l.info, r.info)),
    "sum_pair_bonus": lambda l, r: Candidate(l.value + r.value - (1 if (l.info, r.info) == ("b", "a") else 0), (l.info, r.info)),
    # a cost-only combinator: the pairs carry no tag at all (the result has the optimum and no tags)
    "sum_untagged": lambda l, r: Candidate(l.value + r.value, None),
    "tag_selects_side": lambda l, r: Candidate(l.value if l.info == "a" else r.value + 1, (l.info, r.info)),
}


class _Operand:
    def __init__(self, entry):
        self.entry = entry


def combine_once(merge, ret, left, right, comb_name, cells=""):
    """-> discrepancy or None.  cells: "l" / "r" / "lr" = that operand is a table cell (a proxy) holding the same history
    instead of a stand-alone entry (only for histories without an initial candidate)"""
    a = build(left[0], merge, ret, left[1], left[2])
    b = build(right[0], merge, ret, right[1], right[2])
    if "l" in cells:
        a = _Operand(build("t1dict", merge, ret, None, left[2]).cell())
    if "r" in cells:
        b = _Operand(build("t3", merge, ret, None, right[2]).cell())
    comb = COMBINATORS[comb_name]
    va, ia = a.entry.value(), set(a.entry.infos())
    vb, ib = b.entry.value(), set(b.entry.infos())
    res = a.entry.combine(b.entry, comb)
    ref = RefEntry(merge)
    for t1 in sorted(ia, key=repr):
        for t2 in sorted(ib, key=repr):
            c = comb(Candidate(va, t1), Candidate(vb, t2))
            ref.offer(numkey(c.value), c.info)
    opt, tags = ref.state()
    d = check_observation(merge, ret, opt, tags, numkey(res.value()), res.infos())
    if d:
        return d
    # operands untouched
    if (numkey(a.entry.value()), set(a.entry.infos())) != (numkey(va), ia) or \
            (numkey(b.entry.value()), set(b.entry.infos())) != (numkey(vb), ib):
        return "combine() modified an operand"
    return None


def run_combine(shard):
    merge, ret = shard["merge"], shard["retention"]
    entries = reachable_entries(merge, ret)
    viols = []
    n = 0
    nt = 0
    samples = []
    for left in entries:
        for right in entries:
            for name in COMBINATORS:
                n += 1
                d = combine_once(merge, ret, left, right, name)
                case = {"kind": "combine", "merge": merge, "retention": ret, "combinator": name,
                        "left": {"object": left[0], "init": left[1], "history": left[2]},
                        "right": {"object": right[0], "init": right[1], "history": right[2]}}
                if left[2] and right[2]:
                    nt += 1
                if d and len(viols) < 8:
                    viols.append(viol(case, "combine", d))
                if len(samples) < 1 and left[2] and right[2]:
                    samples.append(case)
                if left[0] == "entry" and right[0] == "entry":
                    # the same pair with the left / right / both operands living in table cells
                    for cells in ("l", "r", "lr"):
                        n += 1
                        d = combine_once(merge, ret, left, right, name, cells)
                        if d and len(viols) < 8:
                            viols.append(viol(dict(case, cells=cells), "combine", f"operand(s) {cells} as table cells: {d}"))
    # never-written table cells combined
    for kind in ("t1dict", "t3"):
        s = build(kind, merge, ret, None, [])
        t = build(kind, merge, ret, None, [["update", [[1, "a"]]]])
        for x, y in ((s.cell(), t.cell()), (t.cell(), s.cell()), (s.cell(), s.cell())):
            n += 1
            r = x.combine(y, COMBINATORS["sum"])
            opt = INF if merge == "MIN" else -INF
            if numkey(r.value()) != opt or r.infos():
                viols.append(viol({"kind": "combine_unwritten", "object": kind, "merge": merge, "retention": ret},
                                  "combine", f"combine with a never-written cell gives {r.value()!r} {r.infos()!r}"))
    return {"evaluations": n, "states": len(entries), "transitions": n, "traces": n, "nontrivial": nt,
            "samples": samples, "violations": viols, "counters": {"combine_pairs": n}}


def splits(seq):
    """every way of cutting seq into consecutive non-empty batches"""
    n = len(seq)
    for cuts in range(1 << (n - 1)):
        out = []
        cur = [seq[0]]
        for i in range(1, n):
            if cuts >> (i - 1) & 1:
                out.append(cur)
                cur = []
            cur.append(seq[i])
        out.append(cur)
        yield out


def run_stateless(shard):
    merge, ret, depth = shard["merge"], shard["retention"], shard["depth"]
    first = tuple(shard["first"])
    viols = []
    n = 0
    nt = 0
    samples = []
    kinds = ("entry", "t2")
    for rest in itertools.product(ALPHABET, repeat=depth - 1):
        seq = [list(first)] + [list(c) for c in rest]
        tagged = any(c[1] for c in seq)
        for sp in splits(seq):
            hist = [["update", b] for b in sp]
            for kind in kinds:
                n += 1
                bad = None
                try:
                    s = Subject(kind, merge, ret)
                    for i, op in enumerate(hist):
                        s.apply(op)
                        bad = s.check()
                        if bad:
                            hist = hist[: i + 1]
                            break
                except (AttributeError, TypeError, KeyError, IndexError) as exc:
                    bad = f"{kind} could not be driven through its history: {type(exc).__name__}: {exc}"
                if bad:
                    if len(viols) < 8:
                        viols.append(viol(describe(kind, merge, ret, None, hist), "invariant", bad))
                elif tagged:
                    nt += 1
        if not samples:
            samples.append(describe("entry", merge, ret, None, [["update", b] for b in sp]))
    return {"evaluations": n, "traces": n, "nontrivial": nt, "samples": samples, "violations": viols,
            "violations_total": len(viols), "counters": {"histories_replayed": n}}


def viol(case, subcheck, detail):
    return {"property": "C16", "subcheck": subcheck, "case": case, "detail": detail}


def replay(v):
    case = v["case"]
    kind = case.get("kind")
    if kind == "history":
        try:
            s = Subject(case["object"], case["merge"], case["retention"],
                        tuple(case["init"]) if case.get("init") else None)
        except (AttributeError, TypeError, KeyError, IndexError) as exc:
            return {"violated": True, "detail": f"object could not be built: {type(exc).__name__}: {exc}"}
        d = s.check()
        if d:
            return {"violated": True, "detail": f"initial state: {d}"}
        for i, op in enumerate(case["history"]):
            try:
                s.apply(op)
                d = s.check()
            except (AttributeError, TypeError, KeyError, IndexError) as exc:
                d = f"{type(exc).__name__}: {exc}"
            if d:
                return {"violated": True, "detail": f"after step {i} {op}: {d}"}
        return {"violated": False}
    if kind == "combine":
        l, r = case["left"], case["right"]
        d = combine_once(case["merge"], case["retention"],
                         (l["object"], tuple(l["init"]) if l.get("init") else None, l["history"]),
                         (r["object"], tuple(r["init"]) if r.get("init") else None, r["history"]),
                         case["combinator"], case.get("cells", ""))
        return {"violated": bool(d), "detail": d}
    if kind == "combine_unwritten":
        s = build(case["object"], case["merge"], case["retention"], None, [])
        t = build(case["object"], case["merge"], case["retention"], None, [["update", [[1, "a"]]]])
        opt = INF if case["merge"] == "MIN" else -INF
        for x, y in ((s.cell(), t.cell()), (t.cell(), s.cell()), (s.cell(), s.cell())):
            r = x.combine(y, COMBINATORS["sum"])
            if numkey(r.value()) != opt or r.infos():
                return {"violated": True, "detail": f"{r.value()!r} {r.infos()!r}"}
        return {"violated": False}
    if kind == "shard":
        res = run_shard(case["shard"], "quick", 0)
        return {"violated": bool(res["violations"]), "detail": res["violations"][0]["detail"] if res["violations"] else None}
    raise ValueError(f"unknown case kind {kind}")
