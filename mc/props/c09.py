"""C09 - results do not depend on presentation and respond sanely to the costs."""
import hashlib
import json
import os
import subprocess
import sys
import traceback

from .. import adapters as A
from .. import labelled as L
from .. import spaces
from ..refmodel import dtl, ordered, refine
from ..refmodel.trees import T, shape_from_json, binary_shapes
from superrec2.compute.reconciliation import reconcile_thl, reconcile_lca
from superrec2.compute.exhaustive import reconcile_exhaustive

PROP = "C09"
LEVEL = "exploration"
INF = dtl.INF
RULE = (
    "for every input of the slice, every coherent cost vector of the menu and every algorithm of the slice, the ALL result "
    "(minimum and optimal set, keyed by clades of original leaf identities) on x is compared with the result on t(x) for "
    "every transformation t of a finite menu: each single-node child swap in either tree and the full mirror; three node "
    "renamings (reversed numbering, digits only, auto-label look-alikes O#/S#) and two family renamings (one reversing the "
    "canonical sort order); an empty outgroup species on either side of a new species root (minimum unchanged; optimal set "
    "unchanged after discarding solutions on the added species, which must not occur when floss > 0); solving the same "
    "input object twice and a freshly built equal input; all unit costs x2 and x3 (minimum scales, set equal); each unit "
    "cost +1 (minimum does not decrease; both vectors coherent). Determinism slice: a fixed corpus solved in fresh "
    "interpreters with PYTHONHASHSEED 0..3 must serialise to byte-identical canonical JSON. Non-trivial (input, vector, "
    "algorithm): the optimal set has >= 2 elements or the minimum is > 0."
)
ASSUMPTIONS = [
    "object-address-dependent iteration order cannot be enumerated from outside; results are compared as sets of canonical keys",
    "outgroup clause read as: minimum unchanged, optimal set unchanged after discarding solutions that use the added species (none when floss > 0)",
    "coherent cost region before and after each change",
]
BUDGET = {"quick": 900, "thorough": 3400}
PLAIN_ALGOS = ("thl",)
ORD_ALGOS = ("ext_spfs", "base_spfs")
UNORD_ALGOS = ("superdtl", "base_uspfs")


def worker_init():
    sys.stderr = open(os.devnull, "w")


def plan(tier, seed):
    core = [c for c in spaces.CV_CORE if spaces.coherent(c)]
    out = []
    o2, u2, u3, u4 = spaces.ordered_syntenies(2), spaces.unordered_syntenies(2), spaces.unordered_syntenies(3), spaces.unordered_syntenies(4)
    o3 = spaces.ordered_syntenies(3)
    if tier == "quick":
        v3 = [core[0], core[2], core[3]]
        for osh, ssh in spaces.shape_pairs(4, 3):
            n = spaces.count_assignments(osh, ssh)
            k = max(1, n // 12)
            for i in range(k):
                # (0,1,6,1,1): a transfer dearer than a duplication plus the losses of one lifted node
                out.append({"slice": "plain:P4x3", "family": "plain", "osh": osh, "ssh": ssh, "costs": v3 + [(0, 1, 6, 1, 1)],
                            "part": (i, k)})
        out += L.split_plan("ordered:O3x2x2", spaces.shape_pairs(3, 2), o2, 25, {"family": "ordered", "costs": v3[:2]})
        # full and segmental losses at different prices: cost-response transformations on 3 objects x 3 species, 2 families
        out += L.split_plan("ordered:O3x3x2/uneven-losses", spaces.shape_pairs(3, 3, min_obj=3, min_sp=3), o2, 25,
                            {"family": "ordered", "costs": [(0, 3, 1, 1, 2), (0, 1, 1, 2, 1)], "kinds": ["mono", "scale"]})
        # ... and the 4-leaf comb on the 3-leaf species comb over {a, c, bc, abc}, every species used: raising the full-loss
        # price must not lower the minimum (extended ordered solver)
        out += L.split_plan("ordered:O4combx3combx{a,c,bc,abc}/raise-floss", [((((None, None), None), None), ((None, None), None))],
                            [("a",), ("c",), ("b", "c"), ("a", "b", "c")], 80,
                            {"family": "ordered", "costs": [(0, 3, 1, 1, 2)], "names": ["raise_floss"], "algos": ["ext_spfs"],
                             "surjective": True})
        out += L.split_plan("unordered:U3x2x2", spaces.shape_pairs(3, 2), u2, 25, {"family": "unordered", "costs": v3[:2]})
        out += L.split_plan("unordered:U3x1x3", spaces.shape_pairs(3, 1), u3, 25, {"family": "unordered", "costs": v3[:1]})
        # 4-leaf chains on one species, 3 families: cost-response transformations only (scaling x2 / x3, each unit cost + 1)
        out += L.split_plan("unordered:U4chainx1x3/costs", [(sh, None) for sh in spaces.chain_shapes(4)], u3, 40,
                            {"family": "unordered", "costs": v3[:1], "kinds": ["scale", "mono", "scale_inplace"]})
        # three and four species leaves, one family: clades at the same depth in different halves of the species tree, so
        # that child order decides which of two tied placements a solver visits first
        out += L.split_plan("unordered:U3x4x1", spaces.shape_pairs(3, 4, min_sp=3), spaces.unordered_syntenies(1), 16,
                            {"family": "unordered", "costs": v3[:2]})
        out += L.split_plan("ordered:O3x4x1", spaces.shape_pairs(3, 4, min_sp=3), spaces.ordered_syntenies(1), 16,
                            {"family": "ordered", "costs": v3[:1]})
        # every 4-leaf object on a species cherry, 2 families: child-order transformations only (a tie nested in the left
        # child that a decoder enumerates differently from the same tie in the right child)
        swaps = ["swap_object", "mirror_both"]
        out += L.split_plan("ordered:O4x2x2/child-order", spaces.shape_pairs(4, 2, min_obj=4, min_sp=2), o2, 60,
                            {"family": "ordered", "costs": v3[:1], "names": swaps})
        out += L.split_plan("unordered:U4x2x2/child-order", spaces.shape_pairs(4, 2, min_obj=4, min_sp=2), u2, 60,
                            {"family": "unordered", "costs": v3[:1], "names": swaps})
        # 5-leaf chains on one species over FOUR families (menu {a, c, d, bd, abcd}), SuperDTL only, child-order and repetition
        # transformations only: co-optimal solutions in which one ancestor carries different contents (see C05)
        chain3 = [spaces.chain_shapes(5)[0], spaces.chain_shapes(5)[-1], (None, (None, ((None, None), None)))]
        out += L.split_plan("unordered:U5chainx1x{a,c,d,bd,abcd}/child-order", [(sh, None) for sh in chain3],
                            [("a",), ("c",), ("d",), ("b", "d"), ("a", "b", "c", "d")], 60,
                            {"family": "unordered", "costs": v3[:1], "names": ["swap_object", "repeat_fresh"], "algos": ["superdtl"]})
        # 3 objects on 3 species leaves, 2 families, unordered: child-order transformations only (a transfer whose conserved
        # copy is the first child and sits strictly below the donor's species)
        out += L.split_plan("unordered:U3x3x2/child-order", spaces.shape_pairs(3, 3, min_obj=3, min_sp=3), u2, 60,
                            {"family": "unordered", "costs": v3[:1], "names": swaps})
        # the input solved after a pass through its dictionary form, under vectors with a unit cost of zero and an infinite one
        zero = [core[3], core[4], core[5], core[6], core[7]]
        dform = {"costs": zero, "names": ["through_dict_form"]}      # (prefix match: also the casepairs variant)
        out += L.split_plan("ordered:O3x2x2/dict-form", spaces.shape_pairs(3, 2, min_obj=2), o2, 60, dict(dform, family="ordered"))
        out += L.split_plan("unordered:U3x2x2/dict-form", spaces.shape_pairs(3, 2, min_obj=2), u2, 60, dict(dform, family="unordered"))
        for osh, ssh in spaces.shape_pairs(3, 3, min_obj=2):
            out.append(dict(dform, slice="plain:P3x3/dict-form", family="plain", osh=osh, ssh=ssh))
        out.insert(0, {"slice": "determinism", "family": "det", "tier": "quick"})
        return out
    v5 = [core[0], core[1], core[2], core[3], core[7]]
    for osh, ssh in spaces.shape_pairs(6, 3, min_obj=5):
        n = spaces.count_assignments(osh, ssh)
        k = max(1, n // 10)
        for i in range(k):
            out.append({"slice": "plain:P5..6x3", "family": "plain", "osh": osh, "ssh": ssh, "costs": v5, "part": (i, k)})
    for osh, ssh in spaces.shape_pairs(4, 4):
        n = spaces.count_assignments(osh, ssh)
        k = max(1, n // 12)
        for i in range(k):
            out.append({"slice": "plain:P4x4", "family": "plain", "osh": osh, "ssh": ssh,
                        "costs": v5 + [(0, 1, 8, 1, 1), (0, 1, 6, 1, 1)], "part": (i, k)})
    out += L.split_plan("ordered:O3x3x3", spaces.shape_pairs(3, 3), o3, 20, {"family": "ordered", "costs": v5[:3]})
    out += L.split_plan("ordered:O4x3x2", spaces.shape_pairs(4, 3, min_obj=4), o2, 15, {"family": "ordered", "costs": v5[:2]})
    out += L.split_plan("unordered:U3x3x3", spaces.shape_pairs(3, 3), u3, 20, {"family": "unordered", "costs": v5[:3]})
    out += L.split_plan("unordered:U4x2x4", spaces.shape_pairs(4, 2, min_obj=4), u4, 15, {"family": "unordered", "costs": v5[:2]})
    # 4-leaf chains on three species leaves, 2 families: reordering / renaming / repetition only
    out += L.split_plan("unordered:U4chainx3x2/presentation",
                        [(o, s_) for o in spaces.chain_shapes(4) for s_ in spaces.binary_shapes(3)], u2, 15,
                        {"family": "unordered", "costs": v5[:1], "kinds": ["same", "twice", "after", "inplace"]})
    # the quick slices that the larger ones above do not subsume
    keep = ("unordered:U3x3x2/child-order", "ordered:O4combx3combx{a,c,bc,abc}/raise-floss", "ordered:O3x3x2/uneven-losses", "unordered:U5chainx1x{a,c,d,bd,abcd}/child-order", "unordered:U4chainx1x3/costs", "unordered:U3x4x1", "ordered:O3x4x1", "ordered:O4x2x2/child-order",
            "unordered:U4x2x2/child-order", "ordered:O3x2x2/dict-form", "unordered:U3x2x2/dict-form", "plain:P3x3/dict-form")
    out = [sh for sh in plan("quick", seed) if sh["slice"] in keep] + out      # cheap ones first
    out.insert(0, {"slice": "determinism", "family": "det", "tier": "thorough"})
    return out


# ------------------------------------------------------------------ presentation layer
def nest(shape):
    return refine.labelled_from_shape(shape)[0]


def swap_at(nested, k):
    """swap the children of the k-th internal node (pre-order)"""
    cnt = [0]

    def rec(x):
        if not isinstance(x, tuple):
            return x
        me = cnt[0]
        cnt[0] += 1
        kids = [rec(c) for c in x]
        if me == k:
            kids.reverse()
        return tuple(kids)

    return rec(nested)


def mirror(nested):
    if not isinstance(nested, tuple):
        return nested
    return tuple(mirror(c) for c in reversed(nested))


def n_internal(nested):
    if not isinstance(nested, tuple):
        return 0
    return 1 + sum(n_internal(c) for c in nested)


NAMINGS = {
    "default": lambda t, p: {v: f"{p}{v}" for v in range(t.n)},
    "reversed": lambda t, p: {v: f"{p}{t.n - 1 - v}" for v in range(t.n)},
    "digits": lambda t, p: {v: str((1 if p == "o" else 2) * 1000 + 37 * (t.n - v)) for v in range(t.n)},
    "autolike": lambda t, p: {v: (f"{p.upper()}{(v + 1) % t.n}" if t.children[v] else f"{p}{v}") for v in range(t.n)},
    # ancestors without a name (legal for library callers; the labelled solvers name them in place on first use)
    "unnamed": lambda t, p: {v: ("" if t.children[v] else f"{p}{v}") for v in range(t.n)},
    # names that differ only by letter case inside one tree (x / X, y / Y, ...)
    "casepairs": lambda t, p: {v: (p + "xyzuvwrst"[v // 2]).upper() if v % 2 else (p + "xyzuvwrst"[v // 2]) for v in range(t.n)},
}
FAMILY_MAPS = {
    "id": {"a": "a", "b": "b", "c": "c", "d": "d"},
    "reverse_sort": {"a": "g9", "b": "g10", "c": "g2", "d": "g1"},   # digit-aware canonical order of the images is d, c, a, b
    "rotate": {"a": "b", "b": "c", "c": "d", "d": "a"},
}


class Pres:
    """one presentation of an input"""

    def __init__(self, onest, snest, leafmap, leafsyn, costs, naming="default", fam="id", order="pre"):
        self.onest, self.snest, self.leafmap, self.leafsyn = onest, snest, leafmap, leafsyn
        self.costs, self.naming, self.fam, self.order = costs, naming, fam, order

    def build(self, family):
        O, olab = refine.model_of(self.onest)
        S, slab = refine.model_of(self.snest)
        oinv = {lab: v for v, lab in olab.items()}
        sinv = {lab: v for v, lab in slab.items()}
        lm = {oinv[o]: sinv[s] for o, s in self.leafmap.items()}
        fm = FAMILY_MAPS[self.fam]
        ls = None
        if family != "plain":
            ls = {oinv[o]: tuple(fm[f] for f in syn) for o, syn in self.leafsyn.items()}
        onames = NAMINGS[self.naming](O, "o")
        snames = NAMINGS[self.naming](S, "s")
        inp, onode, snode = A.build_input(O, S, lm, self.costs, ls, onames, snames, unordered=(family == "unordered"),
                                          order=self.order)
        return inp, O, S, olab, slab, onode, snode


def keys_of(outs, family, pres, O, S, olab, slab, onode, snode):
    inv = {v: k for k, v in FAMILY_MAPS[pres.fam].items()}
    oi, si = A.inverse(onode), A.inverse(snode)
    oc = {v: frozenset(olab[x] for x in O.leaves_under(v)) for v in range(O.n)}
    sc = {v: frozenset(slab[x] for x in S.leaves_under(v)) for v in range(S.n)}
    keys = []
    cs = set()
    for out in outs:
        cs.add(A.impl_cost(out.cost()))
        m = {oi[k]: si[v] for k, v in out.object_species.items()}
        if family == "plain":
            keys.append(frozenset((oc[v], sc[m[v]]) for v in m))
        else:
            items = []
            for k, syn in out.syntenies.items():
                v = oi[k]
                s = tuple(inv[f] for f in syn)
                if family == "unordered":
                    s = tuple(sorted(s))
                items.append((oc[v], sc[m[v]], s))
            keys.append(frozenset(items))
    return cs, keys


def other_input(inp, S, snode, family):
    """a different input on the SAME tree objects and the SAME LowestCommonAncestor object: every object leaf moved to
    the next species leaf (cyclically); syntenies and costs kept"""
    leaves = list(S.leaves)
    nxt = {snode[a]: snode[leaves[(i + 1) % len(leaves)]] for i, a in enumerate(leaves)}
    los = {o: nxt[sp] for o, sp in inp.leaf_object_species.items()}
    if family == "plain":
        return type(inp)(inp.object_tree, inp.species_lca, los, dict(inp.costs))
    return type(inp)(inp.object_tree, inp.species_lca, los, dict(inp.costs), dict(inp.leaf_syntenies))


def reordered_in_place(inp, family):
    """the children of both roots are swapped IN PLACE on the live ete3 trees, then the input is rebuilt on the same node
    objects with a new LowestCommonAncestor (as the class documents for an edited tree)"""
    from superrec2.utils.trees import LowestCommonAncestor
    inp.object_tree.swap_children()
    inp.species_lca.tree.swap_children()
    lca = LowestCommonAncestor(inp.species_lca.tree)
    if family == "plain":
        return type(inp)(inp.object_tree, lca, dict(inp.leaf_object_species), dict(inp.costs))
    return type(inp)(inp.object_tree, lca, dict(inp.leaf_object_species), dict(inp.costs), dict(inp.leaf_syntenies))


def through_dict_form(inp, O, S, onode, snode):
    """the same input after a pass through its dictionary / JSON form (what a caller who stores inputs in files solves);
    node maps rebuilt by name (the default naming is unique)"""
    data = inp.to_dict()
    try:
        data = json.loads(json.dumps(data))
    except TypeError:
        pass        # the package's own infinity object is not JSON-serialisable: the dictionary itself is passed on
    inp2 = type(inp).from_dict(data)
    onode2 = {v: inp2.object_tree.search_nodes(name=onode[v].name)[0] for v in range(O.n)}
    snode2 = {v: inp2.species_lca.tree.search_nodes(name=snode[v].name)[0] for v in range(S.n)}
    return inp2, onode2, snode2


def default_cost_input(inp, family):
    """the same input built WITHOUT a cost argument (the constructor supplies the default unit costs)"""
    if family == "plain":
        return type(inp)(inp.object_tree, inp.species_lca, dict(inp.leaf_object_species))
    return type(inp)(inp.object_tree, inp.species_lca, dict(inp.leaf_object_species), leaf_syntenies=dict(inp.leaf_syntenies))


def solve(algo, family, pres, twice=False, after_other=False, inplace=False, via_dict=False, after_algos=False,
          default_history=False):
    """-> (min cost or None, list of keys, error)"""
    try:
        inp, O, S, olab, slab, onode, snode = pres.build(family)
        if default_history:
            # (only at the default vector) a sibling input, also built without a cost argument, has its transfer and loss
            # prices raised in place before this one is solved: inputs built with default costs must not share them
            sib = default_cost_input(inp, family)
            inp = default_cost_input(inp, family)
            for k_ in list(sib.costs):
                sib.costs[k_] = sib.costs[k_] + 3
        if via_dict:
            inp, onode, snode = through_dict_form(inp, O, S, onode, snode)
        fn = reconcile_thl if algo == "thl" else L.SOLVERS[algo][0]
        if after_algos:
            # every other algorithm of the package that accepts this input has been run on the SAME input object before
            others = {"plain": ("lca", "thl", "exh"), "ordered": ("lca", "thl", "base_spfs", "ext_spfs", "superdtl", "base_uspfs"),
                      "unordered": ("lca", "thl", "base_uspfs", "superdtl")}[family]
            for other in others:
                if other == algo:
                    continue
                try:
                    if other == "lca":
                        reconcile_lca(inp)
                    elif other == "thl":
                        list(reconcile_thl(inp, A.POLICY["ANY"]))
                    elif other == "exh":
                        list(reconcile_exhaustive(inp, A.POLICY["ANY"]))
                    else:
                        list(L.SOLVERS[other][0](inp, A.POLICY["ALL"]))
                        list(L.SOLVERS[other][0](inp, A.POLICY["ANY"]))
                except Exception as exc:
                    return None, [], f"{other} (run before {algo} on the same input object) raised {type(exc).__name__}: {exc}"
        if after_other:
            list(fn(other_input(inp, S, snode, family), A.POLICY["ALL"]))   # state carried over from another input
        if inplace == "scale":
            list(fn(inp, A.POLICY["ALL"]))
            for k_ in list(inp.costs):
                inp.costs[k_] = inp.costs[k_] * 2       # same input object, same LCA structure, prices doubled in place
        elif inplace:
            list(fn(inp, A.POLICY["ALL"]))
            inp = reordered_in_place(inp, family)
        outs = list(fn(inp, A.POLICY["ALL"]))
        if twice:
            outs = list(fn(inp, A.POLICY["ALL"]))   # same input object solved again
        cs, keys = keys_of(outs, family, pres, O, S, olab, slab, onode, snode)
    except Exception as exc:
        return None, [], f"{algo} raised {type(exc).__name__}: {exc}\n{traceback.format_exc(limit=5)}"
    if len(cs) > 1:
        return None, keys, f"{algo}/ALL returned solutions of different costs {sorted(cs)}"
    return (cs.pop() if cs else None), keys, None


def transformations(onest, snest, costs, family):
    """[(name, kind, kwargs)]"""
    out = []
    for k in range(n_internal(onest)):
        out.append((f"swap_object_{k}", "same", {"onest": swap_at(onest, k)}))
    for k in range(n_internal(snest)):
        out.append((f"swap_species_{k}", "same", {"snest": swap_at(snest, k)}))
    out.append(("mirror_both", "same", {"onest": mirror(onest), "snest": mirror(snest)}))
    for nm in ("reversed", "digits", "autolike", "unnamed"):
        out.append((f"rename_nodes_{nm}", "same", {"naming": nm}))
    if family != "plain":
        for fm in ("reverse_sort", "rotate"):
            out.append((f"rename_families_{fm}", "same", {"fam": fm}))
    # the leaf dictionaries (assignment, syntenies) written in another order
    out.append(("leaf_dicts_reversed", "same", {"order": "rev"}))
    out.append(("leaf_dicts_rotated", "same", {"order": "mid"}))
    out.append(("outgroup_right", "outgroup", {"snest": (snest, "X")}))
    out.append(("outgroup_left", "outgroup", {"snest": ("X", snest)}))
    out.append(("through_dict_form", "same", {"via_dict": True}))
    out.append(("through_dict_form_casepairs", "same", {"via_dict": True, "naming": "casepairs"}))
    out.append(("after_other_algorithms", "same", {"after_algos": True}))
    if tuple(costs) == (0, 1, 1, 1, 1):
        out.append(("default_costs_after_sibling_edit", "same", {"default_history": True}))
    out.append(("repeat_same_object", "twice", {}))
    out.append(("repeat_fresh", "same", {}))
    # another input solved first on the same tree objects and the same LowestCommonAncestor structure
    out.append(("after_other_input", "after", {}))
    out.append(("after_other_input_unnamed", "after", {"naming": "unnamed"}))
    # the same tree objects reordered in place after a first solve, a new LCA structure built on them, solved again
    out.append(("reorder_in_place", "inplace", {}))
    out.append(("scale_x2_in_place", "scale_inplace", {"k": 2}))
    for k in (2, 3):
        out.append((f"scale_x{k}", "scale", {"costs": tuple(c * k if c != INF else INF for c in costs), "k": k}))
    for i, nm in enumerate(("spe", "dup", "hgt", "floss", "sloss")):
        if costs[i] == INF or (family == "plain" and i == 4):
            continue
        c2 = tuple(c + 1 if j == i else c for j, c in enumerate(costs))
        ok = spaces.coherent_plain(c2) if family == "plain" else spaces.coherent(c2)
        if ok:
            out.append((f"raise_{nm}", "mono", {"costs": c2}))
    return out


def check_input(algo, family, osh, ssh, leafmap, leafsyn, costs, only=None, kinds=None, names=None):
    """-> (list of (subcheck, detail), nontrivial, runs)"""
    onest, snest = nest(osh), nest(ssh)
    base = Pres(onest, snest, leafmap, leafsyn, costs)
    c0, k0, err = solve(algo, family, base)
    if err:
        return [("exception", err)], False, 1
    if len(set(k0)) != len(k0):
        return [("duplicates", f"{algo}/ALL returned duplicate solutions on the base input")], False, 1
    s0 = set(k0)
    bad = []
    runs = 1
    for name, kind, kw in transformations(onest, snest, costs, family):
        if only and name != only:
            continue
        if kinds and kind not in kinds:
            continue
        if names and not any(name.startswith(pfx) for pfx in names):
            continue
        k = kw.pop("k", None)
        p = Pres(kw.get("onest", onest), kw.get("snest", snest), leafmap, leafsyn, kw.get("costs", costs),
                 kw.get("naming", "default"), kw.get("fam", "id"), kw.get("order", "pre"))
        c1, k1, err = solve(algo, family, p, twice=(kind == "twice"), after_other=(kind == "after"), inplace=("scale" if kind == "scale_inplace" else kind == "inplace"), via_dict=kw.get("via_dict", False), after_algos=kw.get("after_algos", False),
                             default_history=kw.get("default_history", False))
        runs += 1
        if err:
            bad.append((name, f"{name}: {err}"))
            continue
        s1 = set(k1)
        if kind in ("same", "twice", "after", "inplace"):
            if c1 != c0:
                bad.append((name, f"{name}: minimum {c0} -> {c1}"))
            elif s1 != s0 or len(k1) != len(s1):
                bad.append((name, f"{name}: optimal set changed ({len(s0)} -> {len(k1)} solutions, {len(s0 ^ s1)} differ)"))
        elif kind == "outgroup":
            def uses_x(key):
                return any("X" in item[1] for item in key)
            kept = {x for x in s1 if not uses_x(x)}
            if c1 != c0:
                bad.append((name, f"{name}: minimum {c0} -> {c1}"))
            elif kept != s0:
                bad.append((name, f"{name}: optimal set changed ({len(s0)} -> {len(kept)} solutions off the added species)"))
            elif len(kept) != len(s1) and costs[3] > 0:
                bad.append((name, f"{name}: {len(s1) - len(kept)} optimal solutions use the added empty species although floss > 0"))
        elif kind in ("scale", "scale_inplace"):
            want = None if c0 is None else (c0 * k)
            if c1 != want:
                bad.append((name, f"{name}: minimum {c0} -> {c1}, expected {want}"))
            elif s1 != s0:
                bad.append((name, f"{name}: optimal set changed under scaling ({len(s0)} -> {len(s1)})"))
        elif kind == "mono":
            if c0 is not None and (c1 is None or c1 < c0):
                bad.append((name, f"{name}: minimum decreased {c0} -> {c1}"))
    nontriv = len(s0) >= 2 or (c0 is not None and c0 > 0)
    return bad, nontriv, runs


# ------------------------------------------------------------------ determinism corpus
def corpus(tier):
    """fixed list of (algo, family, osh, ssh, leafmap, leafsyn, costs)"""
    n = 300 if tier == "quick" else 1200
    out = []
    cnt = 0
    for osh, ssh in spaces.shape_pairs(4, 3):
        O, S = T(osh), T(ssh)
        for lm in spaces.assignments(O, S):
            if cnt >= n:
                break
            out.append(("thl", "plain", osh, ssh, lm, None, (0, 1, 1, 1, 1)))
            cnt += 1
    for fam, algos, menu, pairs in (("ordered", ORD_ALGOS, spaces.ordered_syntenies(3), spaces.shape_pairs(3, 2, min_obj=2)),
                                    ("unordered", UNORD_ALGOS, spaces.unordered_syntenies(3), spaces.shape_pairs(3, 3, min_obj=2))):
        cnt = 0
        for osh, ssh in pairs:
            O, S = T(osh), T(ssh)
            for i, (lm, ls) in enumerate(L.labelled_inputs(O, S, menu)):
                if i % 17:
                    continue
                if cnt >= n:
                    break
                for algo in algos:
                    out.append((algo, fam, osh, ssh, lm, ls, (0, 1, 1, 1, 1)))
                cnt += 1
    return out


def corpus_digest(tier):
    """solve the corpus and serialise every result canonically (run in a fresh interpreter)"""
    h = hashlib.sha256()
    n = 0
    for algo, fam, osh, ssh, lm, ls, costs in corpus(tier):
        O, S = T(osh), T(ssh)
        fmname = "reverse_sort" if fam != "plain" else "id"
        fm = FAMILY_MAPS[fmname]
        ls2 = None if ls is None else {k: tuple(fm[f] for f in v) for k, v in ls.items()}
        inp, _, _ = A.build_input(O, S, lm, costs, ls2, unordered=(fam == "unordered"))
        fn = reconcile_thl if algo == "thl" else L.SOLVERS[algo][0]
        outs = fn(inp, A.POLICY["ALL"])
        ser = sorted(json.dumps(o.to_dict(), sort_keys=True, default=str) for o in outs)
        h.update(json.dumps([algo, ser]).encode())
        n += 1
    return n, h.hexdigest()


def check_determinism(tier):
    env_base = dict(os.environ)
    env_base["TQDM_DISABLE"] = "1"
    procs = []
    for hs in ("0", "1", "2", "3"):
        env = dict(env_base)
        env["PYTHONHASHSEED"] = hs
        procs.append((hs, subprocess.Popen([sys.executable, "-c",
                                            f"from mc.props import c09; print(*c09.corpus_digest({tier!r}))"],
                                           stdout=subprocess.PIPE, stderr=subprocess.PIPE, env=env,
                                           cwd=os.path.dirname(os.path.dirname(os.path.dirname(os.path.abspath(__file__)))))))
    digests = {}
    for hs, p in procs:
        out, err = p.communicate(timeout=3000)
        if p.returncode != 0:
            raise RuntimeError(f"determinism subprocess failed (PYTHONHASHSEED={hs}): {err.decode()[-800:]}")
        n, d = out.decode().split()
        digests[hs] = (int(n), d)
    return digests


def run_shard(shard, tier, seed):
    fam = shard["family"]
    if fam == "det":
        digests = check_determinism(shard["tier"])
        n = next(iter(digests.values()))[0]
        viols = []
        if len({d for _, d in digests.values()}) != 1:
            viols.append({"property": PROP, "subcheck": "hashseed_determinism", "case": {"mode": "det", "tier": shard["tier"]},
                          "detail": f"canonical serialisation differs between hash seeds: {digests}"})
        return {"evaluations": 4 * n, "nontrivial": n, "samples": [{"mode": "det", "corpus_size": n, "digests": {k: v[1][:16] for k, v in digests.items()}}],
                "violations": viols, "counters": {"fresh_interpreter_runs": 4}}
    osh, ssh = shard["osh"], shard["ssh"]
    O, S = T(osh), T(ssh)
    n_eval = n_inputs = nt = vtotal = 0
    viols = []
    samples = []
    counters = {"solver_runs": 0}
    if fam == "plain":
        algos = PLAIN_ALGOS
        part = shard.get("part")
        gen = ((lm, None) for i, lm in enumerate(spaces.assignments(O, S)) if part is None or i % part[1] == part[0])
    else:
        algos = ORD_ALGOS if fam == "ordered" else UNORD_ALGOS
        gen = L.labelled_inputs(O, S, shard["menu"], shard.get("part"))
    if shard.get("algos"):
        algos = tuple(shard["algos"])
    for leafmap, leafsyn in gen:
        if fam == "ordered" and not ordered.root_orders(leafsyn):
            continue
        if shard.get("surjective") and len(set(leafmap.values())) < len(S.leaves):
            continue
        n_inputs += 1
        for costs in shard["costs"]:
            for algo in algos:
                bad, is_nt, runs = check_input(algo, fam, osh, ssh, leafmap, leafsyn, costs, kinds=shard.get("kinds"), names=shard.get("names"))
                n_eval += runs
                counters["solver_runs"] += runs
                if is_nt:
                    nt += 1
                case = dict(L.case_json(osh, ssh, leafmap, leafsyn or {}, costs, algo), family=fam, mode="transform")
                for sub, detail in bad:
                    vtotal += 1
                    kind = sub.rstrip("0123456789").rstrip("_")
                    if len(viols) < 8 and not any(v["subcheck"] == kind and v["case"]["algorithm"] == algo for v in viols):
                        viols.append({"property": PROP, "subcheck": kind, "case": dict(case, transformation=sub), "detail": detail})
                if not samples:
                    samples.append(dict(case, transformations=[t[0] for t in transformations(nest(osh), nest(ssh), costs, fam)]))
    return {"evaluations": n_eval, "inputs": n_inputs, "nontrivial": nt, "samples": samples, "violations": viols,
            "violations_total": vtotal, "counters": counters}


def replay(v):
    c = v["case"]
    if c.get("mode") == "det":
        digests = check_determinism(c["tier"])
        badd = len({d for _, d in digests.values()}) != 1
        return {"violated": badd, "detail": str(digests) if badd else None}
    osh, ssh, O, S, leafmap, leafsyn, costs, _ = L.case_from_json(c)
    fam = c["family"]
    bad, _, _ = check_input(c["algorithm"], fam, osh, ssh, leafmap, leafsyn if fam != "plain" else None, costs,
                            only=c.get("transformation") if c.get("transformation") not in (None, "exception", "duplicates") else None)
    return {"violated": bool(bad), "detail": "; ".join(d for _, d in bad)[:1500] if bad else None}
