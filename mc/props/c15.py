"""C15 - generated TikZ is well-formed and labels are faithful."""
import itertools
import traceback

from .. import adapters as A
from .. import render_common as R
from .. import spaces, stubs
from ..refmodel import dtl, picture, text as reftext
from ..refmodel.trees import T
from superrec2.render import layout as layout_mod, tikz as tikz_mod
from superrec2.render.model import DrawParams, PseudoGene
from superrec2.utils.text import balanced_wrap
from superrec2.utils import tex as tex_mod
from superrec2.model.synteny import format_synteny

PROP = "C15"
LEVEL = "exploration"
RULE = (
    "TikZ: every valid mapping of every binary input of the slice x labelling {none, same, losses} x naming scheme {plain, "
    "underscores, backslashes} (trees built through the API) x colour menu {none, root, one inner node, nested "
    "inner-in-inner, a leaf, two disjoint subtrees, outer+inner+leaf} x orientation, rotating the menus so that each "
    "combination class occurs on every input shape: a scanner checks balanced braces, one tikzpicture environment, every "
    "statement a \\path or \\node terminated by ';', every reccolorN defined before the picture; colour of every event node "
    "= nearest coloured ancestor-or-self (else the default), loss markers carry the colour of the lineage they sit on, both "
    "in the layout and as the multiset of (kind, colour) in the text; names appear in escaped form (independent escape); "
    "each displayed synteny label, un-wrapped and un-escaped, lists exactly the node's families in order, an ancestral "
    "label being empty iff equal to its parent's synteny. Wrapper: every word list of <= 5 words with lengths in {1,2,4,7} "
    "(thorough <= 6 words, lengths {1,2,3,5,9}) x widths 1..30 for balanced_wrap and syntenies of <= 12 families for "
    "format_synteny: words kept in order, no line longer than the width unless a single word, no more lines than greedy "
    "wrapping. Non-trivial: a reconciliation with a colour or a non-plain name scheme; a word list that must be wrapped."
)
ASSUMPTIONS = ["the text is scanned, not typeset (no TeX engine)", "family names contain no backslash (a doubled backslash in a label is a line break)"]
BUDGET = {"quick": 900, "thorough": 3000}
COL = {"r": "FF0000", "g": "FADBCE", "b": "00aaff"}   # "g": no decimal digit; "b": lower-case hex letters


def colour_menu(O):
    """list of (id, {node: html})"""
    ints = O.internal
    out = [("none", {})]
    out.append(("root", {O.root: COL["r"]}))
    inner = [v for v in ints if v != O.root]
    if inner:
        out.append(("inner", {inner[0]: COL["g"]}))
    nested = [(a, b) for a in ints for b in ints if a != b and O.sanc(a, b)]
    for a, b in nested:
        out.append((f"nested_{a}_{b}", {a: COL["r"], b: COL["g"]}))
    if nested:
        # an explicit black inside a coloured subtree (the natural way to switch a sub-subtree back to black), and the reverse
        a, b = nested[0]
        out.append((f"black_nested_{a}_{b}", {a: COL["r"], b: "000000"}))
        out.append((f"black_outer_{a}_{b}", {a: "000000", b: COL["g"]}))
    out.append(("leaf", {O.leaves[-1]: COL["b"]}))
    if len(ints) >= 1 and len(O.children[O.root]) == 2:
        l, r = O.children[O.root]
        out.append(("two_subtrees", {l: COL["g"], r: COL["b"]}))
    if nested:
        a, b = nested[0]
        lf = O.leaves_under(b)[0]
        out.append(("outer_inner_leaf", {a: COL["r"], b: COL["g"], lf: COL["b"]}))
        # nested node that is NOT the last child: the outer colour must resume after it
        for a, b in nested:
            if O.children[a][0] == b or (O.parent[b] is not None and O.children[O.parent[b]][0] == b):
                out.append((f"nested_first_child_{a}_{b}", {a: COL["b"], b: COL["r"]}))
                break
    return out


def plan(tier, seed):
    # quick: <=4 x <=3 leaves plus few-leaved objects on deeper species trees (4-6 leaves)
    pairs = (spaces.shape_pairs(4, 3) + spaces.shape_pairs(3, 4, min_sp=4) + spaces.shape_pairs(2, 6, min_sp=5) if tier == "quick"
             else spaces.shape_pairs(5, 3) + spaces.shape_pairs(4, 4, min_sp=4) + spaces.shape_pairs(3, 6, min_sp=5))
    out = []
    for osh, ssh in pairs:
        k = max(1, spaces.count_assignments(osh, ssh) // 8)
        for i in range(k):
            out.append({"slice": "tikz:" + ("P4x3+P3x4+P2x6" if tier == "quick" else "P5x3+P4x4+P3x6"), "mode": "tikz", "osh": osh, "ssh": ssh, "part": (i, k)})
    lens = (1, 2, 4, 7) if tier == "quick" else (1, 2, 3, 5, 9)
    maxw = 5 if tier == "quick" else 6
    for k in range(0, maxw + 1):
        for first in (lens if k else [None]):
            out.append({"slice": "wrapper", "mode": "wrap", "k": k, "first": first, "lens": lens})
    out.append({"slice": "wrapper", "mode": "synteny"})
    return out


def unwrap_label(label):
    """displayed label -> list of families (line breaks are doubled backslashes, separators ', ')"""
    if label == "":
        return []
    text = label.replace("\\\\", " ")
    parts = [p.strip() for p in text.split(",")]
    return [p.replace("\\_", "_") for p in parts]


SCHEMES = R.NAME_SCHEMES + ("emptyindex",)


WIDTHS = (18, 7, 30)      # the default wrap width, a narrow and a wide one (rotating over the cases of a process)


def check_tikz(O, S, leafmap, m, evs, labmode, scheme, colid, orient, stubspec=("hash", 5), reverse_mapping=False, width=18):
    colours = dict(colour_menu(O))[colid]
    lab = None if labmode == "none" else R.labellings_for(O, labmode)
    if lab is not None and scheme != "plain":
        ren = {"g1": "fam_1", "g2": "g_2_x", "g3": "g3"}
        lab = {v: tuple(ren.get(f, f) for f in syn) for v, syn in lab.items()}
    stubs.install(stubs.Stub(*stubspec))
    try:
        rec, onode, snode, on, sn = R.build_rec(O, S, leafmap, m, lab, scheme=scheme, colours=colours, reverse_mapping=reverse_mapping)
        params = DrawParams(orientation=R.ORIENT[orient], event_label_width=width)
        before = (None if lab is None else {k: list(v) for k, v in rec.syntenies.items()}, dict(rec.object_species))
        lay = layout_mod.compute(rec, params)
        code = tikz_mod.render(rec, lay, params)
        after = (None if lab is None else {k: list(v) for k, v in rec.syntenies.items()}, dict(rec.object_species))
    except Exception as exc:
        return ("exception", f"{type(exc).__name__}: {exc}\n{traceback.format_exc(limit=6)}")
    if before != after:
        return ("caller_object_modified", "drawing changed the syntenies / mapping of the reconciliation it was given: "
                f"{[list(v) for v in (before[0] or {}).values()][:3]} -> {[list(v) for v in (after[0] or {}).values()][:3]}")
    # ---- well-formedness
    bad = reftext.brace_balance(code)
    if bad:
        return ("braces", bad)
    try:
        pre, body, post = reftext.split_picture(code)
        stmts = reftext.statements(body)
    except ValueError as exc:
        return ("structure", str(exc))
    if post.strip():
        return ("structure", f"material after the picture: {post[:60]!r}")
    for s in stmts:
        if not (s.startswith("\\path") or s.startswith("\\node")):
            return ("structure", f"statement is neither \\path nor \\node: {s[:80]!r}")
    defined = reftext.definecolors(pre)
    import re
    used = set(re.findall(r"reccolor\d+", body))
    if not used <= set(defined):
        return ("undefined_colour", f"colours used {sorted(used)} but defined {sorted(defined)}")
    if set(re.findall(r"reccolor\d+", pre)) - set(defined):
        return ("undefined_colour", "colour referenced in the preamble before its definition")
    # ---- colours in the layout
    want_col = picture.expected_colours(O, colours)
    oinv = A.inverse(onode)
    want_multiset = {}
    for sp, sl in lay.items():
        for g, b in sl.branches.items():
            if isinstance(g, PseudoGene):
                x = g
                hops = 0
                while isinstance(x, PseudoGene) and hops < 50:
                    bb = None
                    for sl2 in lay.values():
                        if x in sl2.branches:
                            bb = sl2.branches[x]
                    x = bb.left if bb.left is not None else bb.right
                    hops += 1
                v = oinv[x]
                kind = "loss"
            else:
                v = oinv[g]
                kind = {"LEAF": "extant gene", "SPECIATION": "speciation", "DUPLICATION": "duplication",
                        "HORIZONTAL_TRANSFER": "horizontal gene transfer"}[b.kind.name]
            if b.color != want_col[v]:
                return ("colour", f"{kind} of object node {v} has colour {b.color}, expected {want_col[v]} "
                        f"(annotations {sorted(colours.items())})")
            want_multiset[(kind, want_col[v])] = want_multiset.get((kind, want_col[v]), 0) + 1
    try:
        nodes = [n for n in (reftext.parse_node(s) for s in stmts) if n]
    except Exception as exc:
        return ("structure", f"event node not parsable: {exc}")
    got_multiset = {}
    for n in nodes:
        html = defined.get(n["colour"])
        got_multiset[(n["kind"], html)] = got_multiset.get((n["kind"], html), 0) + 1
    if got_multiset != want_multiset:
        return ("colour_text", f"(kind, colour) counts in the text {sorted(got_multiset.items(), key=str)}, expected {sorted(want_multiset.items(), key=str)}")
    # ---- names and labels
    species_labels = []
    for st in stmts:
        k = st.find("node[species label] ")
        if k >= 0:
            grp, _ = reftext.brace_group(st, k + len("node[species label] "))
            species_labels.append(grp)
    want_labels = sorted(reftext.escape(sn[v]) for v in S.leaves)   # names without blanks are never wrapped
    if sorted(species_labels) != want_labels:
        return ("species_label", f"species labels {sorted(species_labels)}, expected the escaped names {want_labels}")
    label_nodes = {}
    for sp, sl in lay.items():
        for g, b in sl.branches.items():
            if not isinstance(g, PseudoGene):
                label_nodes[oinv[g]] = b.name
    for v in range(O.n):
        shown = label_nodes[v]
        if lab is None:
            if O.children[v]:
                if shown != "":
                    return ("label", f"unlabelled reconciliation: ancestor {v} displays {shown!r}")
            else:
                species_name, gene_name = on[v].rsplit("_", 1)
                want = f"{reftext.escape(species_name)}\\textsubscript{{{reftext.escape(gene_name)}}}"
                if gene_name == "" and shown == reftext.escape(species_name):
                    continue        # an empty index may be shown without the (empty) subscript; escaping is what matters
                if shown != want:
                    return ("leaf_name", f"leaf {on[v]!r} displayed as {shown!r}, expected {want!r}")
        else:
            fams = list(lab[v])
            par = O.parent[v]
            if O.children[v] and par is not None and tuple(lab[par]) == tuple(lab[v]):
                if shown != "":
                    return ("label", f"node {v} has its parent's synteny but displays {shown!r}")
            elif O.children[v] and par is None:
                if unwrap_label(shown) != fams:
                    return ("label", f"root displays {shown!r}, synteny is {fams}")
            else:
                if unwrap_label(shown) != fams:
                    return ("label", f"node {v} displays {shown!r} -> {unwrap_label(shown)}, synteny is {fams}")
            if "_" in shown.replace("\\_", ""):
                return ("label_escape", f"node {v} displays an unescaped underscore: {shown!r}")
            if shown:
                # the displayed label is the escaped families wrapped at the width of THIS drawing
                esc = [reftext.escape(f) for f in fams]
                words = [w + "," for w in esc[:-1]] + esc[-1:]
                badw = reftext.check_wrap(words, width, shown.replace("\\\\", "\n"))
                if badw:
                    return ("label_wrap", f"node {v} displays {shown!r} at wrap width {width}: {badw}")
    # an empty transfer node is drawn with invisible content (\phantom{-}): that is still an empty label
    shown_in_text = sorted(("" if (n["kind"] == "horizontal gene transfer" and n["label"] == "\\phantom{-}") else n["label"])
                           for n in nodes if n["kind"] != "loss")
    if shown_in_text != sorted(label_nodes.values()):
        return ("label_text", f"labels in the text {shown_in_text[:6]} differ from the layout's {sorted(label_nodes.values())[:6]}")
    return None


def check_wrap_case(words, width):
    text = " ".join(words)
    try:
        out = balanced_wrap(text, width)
    except Exception as exc:
        return f"balanced_wrap({text!r}, {width}) raised {type(exc).__name__}: {exc}"
    bad = reftext.check_wrap(words, width, out)
    if bad:
        return f"balanced_wrap({text!r}, {width}) = {out!r}: {bad}"
    return None


def check_synteny_case(nfam, width, as_set):
    fams = [f"g{i}" for i in range(1, nfam + 1)]
    syn = set(fams) if as_set else list(reversed(fams))
    want = fams if as_set else list(reversed(fams))
    try:
        out = format_synteny(syn, width)
    except Exception as exc:
        return f"format_synteny raised {type(exc).__name__}: {exc}"
    words = [w + "," for w in want[:-1]] + want[-1:]
    bad = reftext.check_wrap(words, width if width is not None else 10 ** 6, out)
    if bad:
        return f"format_synteny({syn}, {width}) = {out!r}: {bad}"
    if width is None and "\n" in out:
        return "format_synteny without width wrapped its output"
    return None


def run_shard(shard, tier, seed):
    n_eval = nt = vtotal = 0
    viols = []
    samples = []
    mode = shard["mode"]
    if mode == "wrap":
        k, lens = shard["k"], shard["lens"]
        firsts = [shard["first"]] if k else []
        for rest in itertools.product(lens, repeat=max(0, k - 1)):
            ls = firsts + list(rest)
            words = ["x" * n for n in ls]
            for width in range(1, 31):
                n_eval += 1
                if sum(ls) + len(ls) - 1 > width and len(ls) > 1:
                    nt += 1
                bad = check_wrap_case(words, width)
                if bad:
                    vtotal += 1
                    if len(viols) < 4:
                        viols.append({"property": PROP, "subcheck": "wrap", "case": {"mode": "wrap", "lengths": ls, "width": width}, "detail": bad})
            if not samples and k >= 3:
                samples.append({"mode": "wrap", "lengths": ls, "widths": "1..30"})
    elif mode == "synteny":
        for nfam in range(1, 13):
            for width in list(range(1, 31)) + [None]:
                for as_set in (False, True):
                    n_eval += 1
                    nt += 1 if nfam > 2 else 0
                    bad = check_synteny_case(nfam, width, as_set)
                    if bad:
                        vtotal += 1
                        if len(viols) < 4:
                            viols.append({"property": PROP, "subcheck": "format_synteny", "detail": bad,
                                          "case": {"mode": "synteny", "nfam": nfam, "width": width, "as_set": as_set}})
        samples.append({"mode": "synteny", "nfam": 12, "width": 18})
    else:
        osh, ssh = shard["osh"], shard["ssh"]
        O, S = T(osh), T(ssh)
        part = shard["part"]
        cmenu = [c[0] for c in colour_menu(O)]
        idx = -1
        ai = -1
        last_lm = None
        for leafmap, m, evs in R.valid_recs(O, S):
            if leafmap != last_lm:
                ai += 1
                last_lm = leafmap
            if ai % part[1] != part[0]:
                continue
            idx += 1
            # every colouring on every mapping (colour propagation is the delicate part), naming/labelling/orientation rotate
            for ci, colid in enumerate(cmenu):
                labmode = ("none", "same", "losses", "gluey", "repeat")[(idx + ci) % 5]
                scheme = SCHEMES[(idx // 3 + ci) % 4]
                orient = "VH"[(idx + ci) % 2]
                rev = bool((idx // 2 + ci) % 2)      # mapping / synteny dicts written bottom-up on every other case
                width = WIDTHS[(idx + 2 * ci) % 3]
                n_eval += 1
                if colid != "none" or scheme != "plain":
                    nt += 1
                bad = check_tikz(O, S, leafmap, m, evs, labmode, scheme, colid, orient, reverse_mapping=rev, width=width)
                case = R.rec_case(osh, ssh, leafmap, m, mode="tikz", labelling=labmode, scheme=scheme, colours=colid, orientation=orient,
                                  reverse_mapping=rev, width=width)
                if bad:
                    vtotal += 1
                    if len(viols) < 6 and not any(v["subcheck"] == bad[0] for v in viols):
                        viols.append({"property": PROP, "subcheck": bad[0], "case": case, "detail": bad[1]})
                if not samples and colid.startswith("nested"):
                    samples.append(case)
    return {"evaluations": n_eval, "nontrivial": nt, "samples": samples, "violations": viols, "violations_total": vtotal}


def replay(v):
    c = v["case"]
    if c["mode"] == "wrap":
        bad = check_wrap_case(["x" * n for n in c["lengths"]], c["width"])
        return {"violated": bool(bad), "detail": bad}
    if c["mode"] == "synteny":
        bad = check_synteny_case(c["nfam"], c["width"], c["as_set"])
        return {"violated": bool(bad), "detail": bad}
    O, S, leafmap, m = R.rec_from_case(c)
    evs = dtl.events_of(O, S, leafmap, m)
    bad = check_tikz(O, S, leafmap, m, evs, c["labelling"], c["scheme"], c["colours"], c["orientation"],
                     reverse_mapping=c.get("reverse_mapping", False), width=c.get("width", 18))
    stubs.restore()
    return {"violated": bool(bad), "detail": (bad[0] + ": " + bad[1]) if bad else None}
