"""C04 - every returned solution is a valid, complete (super-)reconciliation."""
import os
import sys
import traceback

from .. import adapters as A
from .. import labelled as L
from .. import spaces
from ..refmodel import dtl, ordered, unordered
from ..refmodel.trees import T, shape_from_json, binary_shapes, schroeder_shapes, shape_leaves
from superrec2.compute.reconciliation import reconcile_lca

PROP = "C04"
LEVEL = "exploration"
INF = dtl.INF
RULE = (
    "union of the P-, O- and U-slices of C01-C03 plus multifurcating inputs (plane Schroeder shapes with >= 1 polytomy "
    "in either tree) for the two extended solvers; all seven algorithms, both retention policies; cost menu = CV_core "
    "plus incoherent and degenerate vectors ((5,0,3,1,1), (0,0,0,0,0), (2,0,0,1,0), (3,1,4,1,0)) - validity needs no "
    "optimality oracle, so there is no coherence filter. Every returned object is checked against the structural "
    "predicate of the statement, written on the model side and evaluated on the trees the solution itself refers to. "
    "Non-trivial (input, vector, algorithm, policy): >= 2 solutions returned, or one contains a transfer, or sloss = 0."
)
ASSUMPTIONS = [
    "validity predicate as transcribed in refmodel/{dtl,ordered,unordered}.py from the property statement",
    "for multifurcating inputs the refinements themselves are checked by C08; here only that solutions are valid on their own trees and keep the leaf data",
]
BUDGET = {"quick": 900, "thorough": 3300}

DEGENERATE = [(5, 0, 3, 1, 1), (0, 0, 0, 0, 0), (2, 0, 0, 1, 0), (3, 1, 4, 1, 0)]
FULL_MENU = spaces.CV_CORE + DEGENERATE
QUICK_MENU = [(0, 1, 1, 1, 1), (0, 1, 1, 1, 0), (5, 0, 3, 1, 1), (0, 0, 0, 0, 0), (0, 1, INF, 1, 1)]
PLAIN_ALGOS = ("lca", "thl", "exh")


def worker_init():
    sys.stderr = open(os.devnull, "w")


def poly_pairs(max_obj, max_sp, min_obj=2):
    out = []
    for no in range(min_obj, max_obj + 1):
        for ns in range(1, max_sp + 1):
            for osh in schroeder_shapes(no):
                for ssh in schroeder_shapes(ns):
                    if T(osh).is_binary() and T(ssh).is_binary():
                        continue
                    out.append((osh, ssh))
    return out


def session_plan(pp, o2, u2):
    """operation histories on ONE multifurcating input object per shape pair: leaf assignment, syntenies and costs updated
    in place between solves (pairs with a polytomy in one tree only)"""
    out = []
    for osh, ssh in pp:
        if not (T(osh).is_binary() or T(ssh).is_binary()):
            continue
        out.append({"slice": "poly-session:3x3x2", "family": "ordered", "poly": True, "session": True, "osh": osh, "ssh": ssh,
                    "menu": [("a",), ("a", "b")], "costs": [QUICK_MENU[0], QUICK_MENU[4]]})
        out.append({"slice": "poly-session:3x3x2", "family": "unordered", "poly": True, "session": True, "osh": osh, "ssh": ssh,
                    "menu": [("a",), ("a", "b"), ("b",)], "costs": [QUICK_MENU[0], QUICK_MENU[4]]})
    # binary trees, the TOPOLOGY of the one object tree edited in place between solves: the same root node object is given
    # every object shape of 2..4 leaves in turn (Session.rebuild; one shard per rotation of the sequence, the inputs of
    # each shape divided among the rotations)
    base = [osh for n in (3, 4, 2) for osh in spaces.binary_shapes(n)]
    for ssh in list(spaces.binary_shapes(1)) + list(spaces.binary_shapes(2)):
        for rot in range(len(base)):
            seq = base[rot:] + base[:rot] + [base[rot]]
            for fam, menu in (("ordered", o2), ("unordered", u2)):
                out.append({"slice": "retopology-session:2..4x2x2", "family": fam, "session": True, "osh": seq[0], "oshs": seq,
                            "ssh": ssh, "menu": menu, "costs": [QUICK_MENU[0]], "part": (rot, len(base))})
    return out


def plan(tier, seed):
    out = []
    o3, o2 = spaces.ordered_syntenies(3), spaces.ordered_syntenies(2)
    u3, u2 = spaces.unordered_syntenies(3), spaces.unordered_syntenies(2)
    if tier == "quick":
        for osh, ssh in spaces.shape_pairs(4, 3):
            out.append({"slice": "plain:P4x3", "family": "plain", "osh": osh, "ssh": ssh, "costs": QUICK_MENU})
        # three object leaves on the 10-leaf species caterpillar (depth 9), transfers forbidden, full losses at 3: a finite
        # stand-in for "infinite" that is too small for deep species trees shows here (general solver only)
        cat10 = None
        for _ in range(9):
            cat10 = (cat10, None)
        for osh in spaces.binary_shapes(3):
            out.append({"slice": "plain:P3xcaterpillar10/hgt-inf", "family": "plain", "osh": osh, "ssh": cat10,
                        "costs": [(0, 1, INF, 3, 1)], "algos": ["lca", "thl"]})
        out += L.split_plan("ordered:O3x2x3", spaces.shape_pairs(3, 2), o3, 150, {"family": "ordered", "costs": QUICK_MENU[:4]})
        out += L.split_plan("unordered:U3x3x2", spaces.shape_pairs(3, 3), u2, 150, {"family": "unordered", "costs": QUICK_MENU[:4]})
        out += L.split_plan("unordered:U4x2x2", spaces.shape_pairs(4, 2, min_obj=4), u2, 150,
                            {"family": "unordered", "costs": [(1, 1, 1, 1, 1), (0, 1, 1, 1, 0)]})
        # 5 object leaves in a chain on one species: an INHERIT node that gains a family above another INHERIT node
        out += L.split_plan("unordered:U5chainx1x3", [(sh, None) for sh in spaces.chain_shapes(5)], u3, 150,
                            {"family": "unordered", "costs": QUICK_MENU[:1]})
        pp = poly_pairs(3, 3)
        out += L.split_plan("poly-ordered:3x3x2", pp, o2, 60, {"family": "ordered", "poly": True, "costs": QUICK_MENU[:2]})
        out += L.split_plan("poly-unordered:3x3x2", pp, u2, 60, {"family": "unordered", "poly": True,
                                                                  "costs": [QUICK_MENU[0], QUICK_MENU[4]]})   # default, hgt = inf
        out += session_plan(pp, o2, u2)
        return out
    for osh, ssh in spaces.shape_pairs(4, 4):
        out.append({"slice": "plain:P4x4", "family": "plain", "osh": osh, "ssh": ssh, "costs": FULL_MENU})
    for osh, ssh in spaces.shape_pairs(5, 3, min_obj=5):
        out.append({"slice": "plain:P5x3", "family": "plain", "osh": osh, "ssh": ssh, "costs": QUICK_MENU})
    nz = [c for c in FULL_MENU if c != (0, 0, 0, 0, 0)]
    out += L.split_plan("ordered:O3x3x3", spaces.shape_pairs(3, 3), o3, 100, {"family": "ordered", "costs": FULL_MENU})
    out += L.split_plan("ordered:O4x3x2", spaces.shape_pairs(4, 3, min_obj=4), o2, 100, {"family": "ordered", "costs": nz[:8]})
    out += L.split_plan("unordered:U3x3x3", spaces.shape_pairs(3, 3), u3, 100, {"family": "unordered", "costs": FULL_MENU})
    out += L.split_plan("unordered:U4x3x2", spaces.shape_pairs(4, 3, min_obj=4), u2, 100, {"family": "unordered", "costs": nz[:8]})
    out += L.split_plan("unordered:U5chainx1x3", [(sh, None) for sh in spaces.chain_shapes(5)], u3, 150,
                        {"family": "unordered", "costs": QUICK_MENU[:3]})
    pp = poly_pairs(3, 3)
    out += session_plan(pp, o2, u2)
    out += L.split_plan("poly-ordered:3x3x2", pp, o2, 40, {"family": "ordered", "poly": True, "costs": QUICK_MENU[:3] + [QUICK_MENU[4]]})
    out += L.split_plan("poly-unordered:3x3x2", pp, u2, 40, {"family": "unordered", "poly": True, "costs": QUICK_MENU[:3] + [QUICK_MENU[4]]})
    p4 = [(o, s) for o, s in poly_pairs(4, 2, min_obj=4)
          if sum(1 for c in T(o).children.values() if len(c) > 2) == 1 and max(len(c) for c in T(o).children.values()) == 3]
    out += L.split_plan("poly-unordered:4x2x2", p4, u2, 40, {"family": "unordered", "poly": True, "costs": QUICK_MENU[:2]})
    out += L.split_plan("poly-ordered:4x2x2", p4, o2, 40, {"family": "ordered", "poly": True, "costs": QUICK_MENU[:2]})
    return out


# ----------------------------------------------------------------------------
def check_plain(algo, O, S, leafmap, costs, policy):
    """-> (bad, nsols, has_transfer); bad = None or (subcheck, detail)"""
    inp, onode, snode = A.build_input(O, S, leafmap, costs)
    try:
        if algo == "lca":
            res = [reconcile_lca(inp)]
        else:
            res = list(L.PLAIN[algo](inp, A.POLICY[policy]))
    except Exception as exc:
        return ("exception", f"{algo}/{policy} raised {type(exc).__name__}: {exc}\n{traceback.format_exc(limit=5)}"), 0, False
    tr = False
    for out in res:
        m = A.mapping_of(out, onode, snode)
        if set(m) != set(range(O.n)) or None in m.values():
            return ("not_total", f"{algo}/{policy}: mapping not total {sorted(m.items(), key=str)}"), len(res), tr
        evs = dtl.events_of(O, S, leafmap, m)
        if evs is None:
            return ("invalid", f"{algo}/{policy}: invalid mapping {sorted(m.items())}"), len(res), tr
        tr = tr or any(e[0] == "T" for e in evs.values())
        try:
            c = A.impl_cost(out.cost())
        except Exception as exc:
            return ("exception", f"cost() raised {type(exc).__name__}: {exc}"), len(res), tr
        if c == INF and algo != "lca":
            return ("infinite_cost", f"{algo}/{policy}: returned solution has infinite cost {sorted(m.items())}"), len(res), tr
    return None, len(res), tr


def check_labelled_binary(algo, O, S, leafmap, leafsyn, costs, policy, session=None):
    r = L.run_labelled(algo, O, S, leafmap, leafsyn, costs, policy, session=session)
    if r.error:
        return ("exception", r.error + "\n" + (r.trace or "")), 0, False
    tr = False
    for m, lab, c in r.sols:
        bad = L.validity(algo, O, S, leafmap, leafsyn, m, lab)
        if bad:
            return ("invalid", f"{algo}/{policy}: {bad}; {L.fmt_sol(m, lab)}"), len(r.sols), tr
        if c == INF:
            return ("infinite_cost", f"{algo}/{policy}: infinite cost; {L.fmt_sol(m, lab)}"), len(r.sols), tr
        evs = dtl.events_of(O, S, leafmap, m)
        tr = tr or any(e[0] == "T" for e in evs.values())
    return None, len(r.sols), tr


def check_labelled_poly(algo, O, S, leafmap, leafsyn, costs, policy, session=None):
    """multifurcating input: validate each solution on the trees it refers to"""
    fn, model, _ = L.SOLVERS[algo]
    is_ord = model == "ordered"
    if session is not None:
        inp, onode, snode = session.set(leafmap, costs, leafsyn)
    else:
        # ancestors already carry names of the auto-label form (O#/S#), as after label_internal() or a pass through the CLI
        inp, onode, snode = A.build_input(O, S, leafmap, costs, leafsyn, unordered=not is_ord,
                                          # (object leaves: <another species leaf>_<id> - the explicit assignment must win
                                          # over anything read off the names when the input passes through its dictionary form)
                                          onames={v: (f"O{v}" if O.children[v] else
                                                      f"s{S.leaves[(S.leaves.index(leafmap[v]) + 1) % len(S.leaves)]}_{v}") for v in range(O.n)},
                                          snames={v: (f"S{v}" if S.children[v] else f"s{v}") for v in range(S.n)})
    oname = {onode[v].name: v for v in O.leaves}
    sname = {snode[v].name: v for v in S.leaves}
    try:
        outs = list(fn(inp, A.POLICY[policy]))
    except Exception as exc:
        return ("exception", f"{algo}/{policy} raised {type(exc).__name__}: {exc}\n{traceback.format_exc(limit=5)}"), 0, False
    tr = False
    for out in outs:
        try:
            O2, oidx = A.model_from_ete(out.input.object_tree)
            S2, sidx = A.model_from_ete(out.input.species_lca.tree)
            if not O2.is_binary() or not S2.is_binary():
                return ("not_binary", f"{algo}/{policy}: solution refers to a non-binary tree"), len(outs), tr
            leafmap2 = {oidx[k]: sidx[v] for k, v in out.input.leaf_object_species.items()}
            leafsyn2 = {oidx[k]: (tuple(v) if is_ord else frozenset(v)) for k, v in out.input.leaf_syntenies.items()}
            # original leaf data kept (by leaf name)
            for k, v in out.input.leaf_object_species.items():
                if sname.get(v.name) != leafmap.get(oname.get(k.name)):
                    return ("leaf_data", f"{algo}/{policy}: leaf {k.name} assigned to {v.name}"), len(outs), tr
            for k, v in out.input.leaf_syntenies.items():
                want = leafsyn[oname[k.name]]
                if (tuple(v) != tuple(want)) if is_ord else (frozenset(v) != frozenset(want)):
                    return ("leaf_data", f"{algo}/{policy}: leaf {k.name} synteny {v} != {want}"), len(outs), tr
            if set(leafmap2) != set(O2.leaves) or len(O2.leaves) != len(O.leaves):
                return ("leaf_data", f"{algo}/{policy}: leaves changed"), len(outs), tr
            m = {oidx.get(k): sidx.get(v) for k, v in out.object_species.items()}
            lab = {oidx.get(k): (tuple(v) if is_ord else frozenset(v)) for k, v in out.syntenies.items()}
            if None in m or None in m.values() or None in lab:
                return ("foreign_nodes", f"{algo}/{policy}: solution maps nodes that are not in its own trees"), len(outs), tr
            # "maps every object-tree node to a species" must survive the name-keyed dictionary form the tool writes
            d = out.to_dict()
            if len(d["object_species"]) != O2.n or len(d["syntenies"]) != O2.n:
                names = [n.name for n in out.input.object_tree.traverse()]
                return ("incomplete_dict", f"{algo}/{policy}: dictionary form maps {len(d['object_species'])} and labels "
                        f"{len(d['syntenies'])} of {O2.n} object nodes (node names {names})"), len(outs), tr
            snames_out = [n.name for n in out.input.species_lca.tree.traverse()]
            if len(set(snames_out)) != len(snames_out):
                return ("incomplete_dict", f"{algo}/{policy}: species nodes of the solution's tree share names {snames_out}"), len(outs), tr
            bad = L.validity(algo, O2, S2, leafmap2, leafsyn2, m, lab)
            if bad:
                return ("invalid", f"{algo}/{policy}: {bad}; {L.fmt_sol(m, lab)}"), len(outs), tr
            if A.impl_cost(out.cost()) == INF:
                return ("infinite_cost", f"{algo}/{policy}: infinite cost"), len(outs), tr
            # ... and finite under the unit costs the caller asked for (a refinement must not come with other prices)
            true_cost = L.model_cost(algo, O2, S2, leafmap2, leafsyn2, costs, m, lab)
            if true_cost is None or true_cost == INF:
                return ("infinite_cost", f"{algo}/{policy}: the returned solution has infinite cost under the requested unit "
                        f"costs {A.costs_to_json(costs)} (its own input carries {sorted((k.name, str(v)) for k, v in out.input.costs.items())}); "
                        f"{L.fmt_sol(m, lab)}"), len(outs), tr
            evs = dtl.events_of(O2, S2, leafmap2, m)
            tr = tr or any(e[0] == "T" for e in evs.values())
        except Exception as exc:
            return ("malformed", f"{algo}/{policy}: {type(exc).__name__}: {exc}\n{traceback.format_exc(limit=5)}"), len(outs), tr
    if not outs and (not is_ord or ordered.root_orders(leafsyn)):
        return ("empty", f"{algo}/{policy} returned nothing on a multifurcating input that has solutions"), 0, tr
    return None, len(outs), tr


def run_shard(shard, tier, seed):
    osh, ssh = shard["osh"], shard["ssh"]
    O, S = T(osh), T(ssh)
    n_eval = n_inputs = nt = vtotal = 0
    viols = []
    samples = []
    counters = {"solutions_checked": 0}

    def report(bad, case):
        nonlocal vtotal
        vtotal += 1
        if len(viols) < 8 and not any(v["subcheck"] == bad[0] and v["case"]["algorithm"] == case["algorithm"] for v in viols):
            viols.append({"property": PROP, "subcheck": bad[0], "case": case, "detail": bad[1]})

    fam = shard["family"]
    if fam == "plain":
        for leafmap in spaces.assignments(O, S):
            n_inputs += 1
            for costs in shard["costs"]:
                for algo in (shard.get("algos") or PLAIN_ALGOS):
                    for policy in (("ALL",) if algo == "lca" else ("ALL", "ANY")):
                        n_eval += 1
                        bad, k, tr = check_plain(algo, O, S, leafmap, costs, policy)
                        counters["solutions_checked"] += k
                        if k >= 2 or tr:
                            nt += 1
                        case = {"family": "plain", "object_shape": osh, "species_shape": ssh,
                                "leaf_object_species": sorted(leafmap.items()), "costs": A.costs_to_json(costs),
                                "algorithm": algo, "policy": policy}
                        if bad:
                            report(bad, case)
                        if not samples:
                            samples.append(case)
        return {"evaluations": n_eval, "inputs": n_inputs, "nontrivial": nt, "samples": samples,
                "violations": viols, "violations_total": vtotal, "counters": counters}
    poly = shard.get("poly", False)
    if poly:
        algos = ("ext_spfs",) if fam == "ordered" else ("superdtl",)
        fn = check_labelled_poly
    else:
        algos = ("ext_spfs", "base_spfs") if fam == "ordered" else ("superdtl", "base_uspfs")
        fn = check_labelled_binary
    sess = None
    if shard.get("session"):
        sess = A.Session(O, S, labelled=True, unordered=(fam != "ordered"))
    def inputs():
        if not shard.get("oshs"):
            for lm, ls in L.labelled_inputs(O, S, shard["menu"], shard.get("part")):
                yield shard["osh"], O, lm, ls
            return
        for i, osh_i in enumerate(shard["oshs"]):
            O_i = T(osh_i)
            if i:
                sess.rebuild(O_i)
                counters["topology_edits"] = counters.get("topology_edits", 0) + 1
            for lm, ls in L.labelled_inputs(O_i, S, shard["menu"], shard.get("part")):
                yield osh_i, O_i, lm, ls

    for osh, O, leafmap, leafsyn in inputs():
        if sess is not None and fam == "ordered" and not ordered.root_orders(leafsyn):
            continue
        n_inputs += 1
        for costs in shard["costs"]:
            for algo in algos:
                for policy in ("ALL", "ANY"):
                    n_eval += 1
                    if sess is not None:
                        bad, k, tr = fn(algo, O, S, leafmap, leafsyn, costs, policy, session=sess)
                        if bad:
                            bad = ("session_" + bad[0], f"solve #{sess.calls} of one input object updated in place: " + bad[1])
                    else:
                        bad, k, tr = fn(algo, O, S, leafmap, leafsyn, costs, policy)
                    counters["solutions_checked"] += k
                    if k >= 2 or tr or costs[4] == 0:
                        nt += 1
                    case = dict(L.case_json(osh, ssh, leafmap, leafsyn, costs, algo, policy), family=fam, poly=poly)
                    if sess is not None:
                        case["session_shard"] = A.pack(shard)
                    if bad:
                        report(bad, case)
                    if not samples:
                        samples.append(case)
    return {"evaluations": n_eval, "inputs": n_inputs, "nontrivial": nt, "samples": samples,
            "violations": viols, "violations_total": vtotal, "counters": counters}


def replay(v):
    case = v["case"]
    if case.get("session_shard"):
        res = run_shard(A.unpack(case["session_shard"]), "quick", 0)
        hits = [x for x in res["violations"] if x["subcheck"] == v.get("subcheck")] or res["violations"]
        return {"violated": bool(hits), "detail": (hits[0]["subcheck"] + ": " + hits[0]["detail"]) if hits else None}
    algo, policy = case["algorithm"], case["policy"]
    if case.get("family") == "plain":
        O, S = T(shape_from_json(case["object_shape"])), T(shape_from_json(case["species_shape"]))
        leafmap = {int(k): int(x) for k, x in case["leaf_object_species"]}
        bad, _, _ = check_plain(algo, O, S, leafmap, A.costs_from_json(case["costs"]), policy)
    else:
        osh, ssh, O, S, leafmap, leafsyn, costs, rootsyn = L.case_from_json(case)
        fn = check_labelled_poly if case.get("poly") else check_labelled_binary
        bad, _, _ = fn(algo, O, S, leafmap, leafsyn, costs, policy)
    return {"violated": bool(bad), "detail": (bad[0] + ": " + bad[1]) if bad else None}
