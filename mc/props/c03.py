"""C03 - SuperDTL / base_uspfs return a minimum-cost unordered super-reconciliation."""
import os
import sys

from .. import adapters as A
from .. import labelled as L
from .. import spaces
from ..refmodel import unordered, dtl
from ..refmodel.trees import T, shape_leaves
from . import c02

PROP = "C03"
LEVEL = "exploration"
ALGOS = ("superdtl", "base_uspfs")
RULE = (
    "every pair of plane binary shapes within the slice bounds x every leaf assignment x every tuple of non-empty "
    "family subsets over the slice's menu (tuples up to bijective renaming of families) x every coherent cost vector "
    "of the slice x {superdtl, base_uspfs} x {ALL, ANY}. Oracle: minimum over every valid species mapping and EVERY "
    "labelling between the required content and the content allowed by the gain nodes (not only the two canonical "
    "choices the solver searches): plain brute force up to 4 object leaves, Bellman over (species, content) states "
    "for 5 (refmodel.unordered, cross-validated). Non-trivial (input, vector): some node has a labelling choice "
    "(allowed != required) or a family is gained below the root."
)
ASSUMPTIONS = [
    "reference model refmodel/unordered.py (gain at the LCA of carriers, one segmental loss per charged edge)",
    "cost vectors restricted to spe + 2*sloss <= dup + 2*floss (F-COHERENCE)",
    "ete3 tree container; CPython",
]
BUDGET = {"quick": 900, "thorough": 3300}


def worker_init():
    sys.stderr = open(os.devnull, "w")


def slices(tier):
    core = [c for c in spaces.CV_CORE if spaces.coherent(c)]
    u3 = spaces.unordered_syntenies(3)
    u2 = spaces.unordered_syntenies(2)
    u4 = spaces.unordered_syntenies(4)
    quick = [
            ("U3x3x3", spaces.shape_pairs(3, 3), u3, [core[0], core[2], core[6]]),   # default, distinct weights, hgt = 0
            # 4 object leaves: two INHERIT siblings below a node that gains a family (shared-set hazards)
            ("U4x2x2", spaces.shape_pairs(4, 2, min_obj=4), u2, [core[0], core[4], spaces.CV_DISTINCT, spaces.CV_SLOSS3]),
            # 5 object leaves in a chain: four nested ancestors (an INHERIT node above an INHERIT node that gains a family)
            ("U5chainx1x3", [(sh, None) for sh in spaces.chain_shapes(5)], u3, [core[0]]),
            # 4 object leaves, 3 families, a cherry of species: an ancestor that inherits a family none of its leaves
            # carries and transfers a child to the sister species
            ("U4chainx2x3", [(sh, (None, None)) for sh in spaces.chain_shapes(4)[::3]], u3, [core[0]]),   # the two combs
            # every 4-leaf object on 3 species leaves, one family: speciations between lineages that each hold a transfer
            ("U4x3x1", spaces.shape_pairs(4, 3, min_obj=4, min_sp=3), spaces.unordered_syntenies(1),
             [core[0], core[6], (0, 1, 4, 1, 1)]),
            # ... and on 4 species leaves with a transfer dearer than a duplication plus the losses of one lifted node, yet
            # cheaper than the cascade of lifted ancestors it avoids
            ("U4x4x1/dear-transfer", spaces.shape_pairs(4, 4, min_obj=4, min_sp=4), spaces.unordered_syntenies(1), [(0, 1, 6, 1, 1)]),
            # every 4-leaf object on 3 species leaves, each leaf holding ONE of two families, transfers at twice the unit price
            # and segmental losses at 1 and 2: a duplication whose charged child sits strictly below while the other child
            # stays in the species of the duplication, with a transfer scenario within one segmental loss of it
            ("U4x3x{a,b}/hgt2", spaces.shape_pairs(4, 3, min_obj=4, min_sp=3), [("a",), ("b",)], [(0, 2, 2, 1, 2), (0, 1, 2, 1, 1)]),
        ]
    if tier == "quick":
        return quick
    full = core + [c for c in c02.EXTRA_VECTORS if spaces.coherent(c)]
    # thorough: the quick slices that the larger ones below do not subsume, then the larger ones
    return [q for q in quick if q[0] not in ("U3x3x3", "U5chainx1x3")] + [
        ("U3x3x3", spaces.shape_pairs(3, 3), u3, full),
        ("U4x3x2", spaces.shape_pairs(4, 3, min_obj=4), u2, core),
        ("U4x2x4", spaces.shape_pairs(4, 2, min_obj=4), u4, core[:4]),
        ("U5x2x2", spaces.shape_pairs(5, 2, min_obj=5), u2, core[:3]),
        ("U5chainx1x3", [(sh, None) for sh in spaces.chain_shapes(5)], u3, [core[0], core[1], core[4]]),
    ]


def plan(tier, seed):
    out = []
    for name, pairs, menu, costs in slices(tier):
        out.extend(L.split_plan(name, pairs, menu, 150, {"costs": costs}))
    # operation histories on one shared input object per shape pair (see C02)
    core = [c for c in spaces.CV_CORE if spaces.coherent(c)]
    u2 = spaces.unordered_syntenies(2)
    for k, (osh, ssh) in enumerate(spaces.shape_pairs(3, 3, min_obj=2)):
        out.append({"slice": "session:U3x3x2", "osh": osh, "ssh": ssh, "menu": u2,
                    "costs": [core[0], core[6]] if tier == "quick" else [core[0], core[6], core[4], core[1]],
                    "session": True, "unnamed": bool(k % 2)})
    # 5-leaf comb on the congruent 4-leaf species comb, FOUR families on the menu {a, ab, ac, ad, abcd}, full losses dearer
    # than segmental ones and transfers out of reach: chains of INHERIT nodes through speciations (depth 4)
    comb5, comb4 = ((((None, None), None), None), None), (((None, None), None), None)
    for i in range(32):
        out.append({"slice": "U5combx4comb/congruent x {a,ab,ac,ad,abcd}", "osh": comb5, "ssh": comb4, "congruent": True,
                    "menu": [("a",), ("a", "b"), ("a", "c"), ("a", "d"), ("a", "b", "c", "d")], "part": (i, 32),
                    "costs": [(0, 1, 9, 2, 1)]})
    # the same history with the TOPOLOGY of the object tree edited in place between solves: one root node object is given
    # every object shape of 2..4 leaves in turn (Session.rebuild, one shard per rotation of the sequence), the inputs of each
    # shape being divided among the rotations
    base = [osh for n in (3, 4, 2) for osh in spaces.binary_shapes(n)]
    k = 0
    for ssh in list(spaces.binary_shapes(1)) + list(spaces.binary_shapes(2)):
        for rot in range(len(base)):
            seq = base[rot:] + base[:rot] + [base[rot]]
            out.append({"slice": "retopology-session:U2..4x2x2", "osh": seq[0], "oshs": seq, "ssh": ssh, "menu": u2,
                        "costs": [core[0]], "session": True, "unnamed": bool(k % 2), "part": (rot, len(base))})
            k += 1
    return out


def nontrivial(O, leafsyn):
    if unordered.has_choice(O, leafsyn):
        return True
    g = unordered.gain_nodes(O, leafsyn)
    return any(v != O.root for v in g.values())


def run_shard(shard, tier, seed):
    osh, ssh = shard["osh"], shard["ssh"]
    O, S = T(osh), T(ssh)
    brute = len(O.leaves) <= 4
    n_eval = n_inputs = nt = vtotal = 0
    viols = []
    samples = []
    counters = {"solver_runs": 0, "oracle_brute": 0, "oracle_bellman": 0, "topology_edits": 0}
    sess = A.Session(O, S, labelled=True, unordered=True, unnamed=shard.get("unnamed", False)) if shard.get("session") else None

    def inputs():
        if shard.get("congruent"):
            # ONE leaf assignment: the first two object leaves in the first species leaf, every further object leaf in the next
            # species leaf (object comb and species comb congruent: the LCA mapping is a chain of speciations under a cherry)
            lm = {v: S.leaves[max(0, i - 1)] for i, v in enumerate(O.leaves)}
            i_, k_ = shard["part"]
            for idx, tup in enumerate(spaces.synteny_tuples(len(O.leaves), shard["menu"])):
                if idx % k_ == i_:
                    yield osh, O, lm, dict(zip(O.leaves, tup))
            return
        if not shard.get("oshs"):
            for lm, ls in L.labelled_inputs(O, S, shard["menu"], shard.get("part")):
                yield osh, O, lm, ls
            return
        for i, osh_i in enumerate(shard["oshs"]):
            O_i = T(osh_i)
            if i:
                sess.rebuild(O_i)
                counters["topology_edits"] += 1
            for lm, ls in L.labelled_inputs(O_i, S, shard["menu"], shard.get("part")):
                yield osh_i, O_i, lm, ls

    for osh, O, leafmap, leafsyn in inputs():
        n_inputs += 1
        is_nt = nontrivial(O, leafsyn)
        for costs in shard["costs"]:
            if is_nt:
                nt += 1
            for algo in ALGOS:
                orc = L.oracle(algo, O, S, leafmap, leafsyn, costs, brute=brute)
                counters["oracle_brute" if brute else "oracle_bellman"] += 1
                for policy in ("ALL", "ANY"):
                    n_eval += 1
                    counters["solver_runs"] += 1
                    bad = c02.check_case(algo, O, S, leafmap, leafsyn, costs, policy, None, orc, session=sess)
                    if bad:
                        vtotal += 1
                        if len(viols) < 8 and not any(v["subcheck"] == bad[0] and v["case"]["algorithm"] == algo
                                                      for v in viols):
                            case = L.case_json(osh, ssh, leafmap, leafsyn, costs, algo, policy)
                            detail = bad[1]
                            if sess is not None:
                                case["session_shard"] = A.pack(shard)
                                detail = f"call #{sess.calls} on the shared input object (state updated in place): " + detail
                            viols.append({"property": PROP, "subcheck": ("session_" if sess else "") + bad[0],
                                          "case": case, "detail": detail, "traceback": bad[2]})
        if not samples:
            samples.append(L.case_json(osh, ssh, leafmap, leafsyn, shard["costs"][0], "superdtl", "ALL"))
    return {"evaluations": n_eval, "inputs": n_inputs, "nontrivial": nt, "samples": samples,
            "violations": viols, "violations_total": vtotal, "counters": counters}


def replay(v):
    case = v["case"]
    if case.get("session_shard"):
        return c02.replay_session(sys.modules[__name__], v)
    osh, ssh, O, S, leafmap, leafsyn, costs, rootsyn = L.case_from_json(case)
    orc = L.oracle(case["algorithm"], O, S, leafmap, leafsyn, costs, brute=len(O.leaves) <= 4)
    bad = c02.check_case(case["algorithm"], O, S, leafmap, leafsyn, costs, case["policy"], None, orc)
    return {"violated": bool(bad), "detail": (bad[0] + ": " + bad[1]) if bad else None}
