"""C08 - polytomies are resolved by exploring every binary refinement exactly once."""
import os
import sys
import traceback

from .. import adapters as A
from .. import labelled as L
from .. import spaces
from ..refmodel import dtl, ordered, unordered, refine
from ..refmodel.trees import T, shape_from_json, schroeder_shapes, shape_leaves
from ete3 import Tree
from superrec2.utils.trees import binarize, is_binary

PROP = "C08"
LEVEL = "exploration"
INF = dtl.INF
RULE = (
    "enumerator: every plane Schroeder shape (internal nodes with >= 2 children) up to 6 leaves, with names on all nodes "
    "and colours on a rotating subset of internal nodes: binarize(tree) must return only binary trees, prod (2k-3)!! of them, "
    "pairwise distinct as clade sets, equal as a set to the model's refinements, each keeping every original clade together "
    "with the name and colour of the node that carried it, the leaf names, and leaving the argument untouched; "
    "ReconciliationInput.binarize(): the product over both trees with leaf data and costs unchanged, a binary input returned "
    "as is. End-to-end: every input with >= 1 polytomy in either tree within the slice bounds x leaf syntenies over "
    "{a, ab, b(, ba)} x coherent vectors x {ext_spfs, superdtl} x {ALL, ANY}: every returned solution refers to binary "
    "refinements (clades, names, colours, leaf data kept, new nodes named), its cost is the minimum over all model "
    "refinement pairs of the C02/C03 oracle, and ALL equals the union of the per-refinement optimal sets attaining that "
    "minimum (clade-based keys), without duplicates. Non-trivial: >= 3 refinement pairs, or the optimum is attained by "
    "only some of the refinements."
)
ASSUMPTIONS = [
    "reference refinement generator refmodel/refine.py; C02/C03 oracles per refinement pair",
    "solutions compared through clade-based keys (new node names are not compared)",
    "coherent cost region (F-COHERENCE)",
]
BUDGET = {"quick": 900, "thorough": 3300}


def worker_init():
    sys.stderr = open(os.devnull, "w")


def poly_shape_pairs(max_obj, max_sp, min_obj=2, one_ternary_obj=False, max_sp_poly=None):
    out = []
    for no in range(min_obj, max_obj + 1):
        for ns in range(1, max_sp + 1):
            for osh in schroeder_shapes(no):
                for ssh in schroeder_shapes(ns):
                    ob, sb = T(osh).is_binary(), T(ssh).is_binary()
                    if ob and sb:
                        continue
                    if one_ternary_obj:
                        ar = [len(c) for c in T(osh).children.values() if len(c) > 2]
                        if ar not in ([3], []):
                            continue
                        sar = [len(c) for c in T(ssh).children.values() if len(c) > 2]
                        if len(sar) > 1 or (sar and not ob and ns > 2 and False):
                            continue
                    out.append((osh, ssh))
    return out


def plan(tier, seed):
    out = []
    maxl = 6
    for n in range(1, maxl + 1):
        shapes = list(schroeder_shapes(n))
        for i in range(0, len(shapes), 6):
            out.append({"slice": "binarize<=6", "mode": "enum", "shapes": shapes[i:i + 6], "offset": i})
    for osh, ssh in spaces.shape_pairs(3, 3, shapes=schroeder_shapes):
        out.append({"slice": "input.binarize<=3x3", "mode": "input", "osh": osh, "ssh": ssh})
    core = [c for c in spaces.CV_CORE if spaces.coherent(c)]
    omenu = [("a",), ("a", "b"), ("b",), ("b", "a")]
    umenu = [("a",), ("a", "b"), ("b",)]
    pp = poly_shape_pairs(3, 3)
    # (0,1,2,1,1): a transfer as dear as a duplication plus a loss (a bound that trades one transfer for one
    # duplication and one loss is then just not sound)
    vecs = [core[0], (0, 1, 2, 1, 1)] if tier == "quick" else [core[0], core[2], core[4], (0, 1, 2, 1, 1)]
    out += L.split_plan("e2e-ordered:3x3", pp, omenu, 40, {"mode": "e2e", "algo": "ext_spfs", "costs": vecs})
    out += L.split_plan("e2e-unordered:3x3", pp, umenu, 40, {"mode": "e2e", "algo": "superdtl", "costs": vecs})
    # one family, unusual prices: a speciation dearer than a transfer (an "ideal cost" of n-1 speciations is then no lower
    # bound), and duplications / transfers forbidden (some refinements are infeasible, others are not)
    odd = [(2, 2, 1, 1, 1), (0, INF, INF, 1, 1), (0, INF, 1, 1, 1)]
    out += L.split_plan("e2e-ordered:3x3x1/odd prices", pp, [("a",)], 40, {"mode": "e2e", "algo": "ext_spfs", "costs": odd})
    out += L.split_plan("e2e-unordered:3x3x1/odd prices", pp, [("a",)], 40, {"mode": "e2e", "algo": "superdtl", "costs": odd})
    # operation histories: ONE multifurcating input object per shape pair, solved again and again after in-place edits of
    # its trees (ancestor names, a colour) and of its leaf assignment / syntenies
    for osh, ssh in pp:
        if not (T(osh).is_binary() or T(ssh).is_binary()):
            continue   # star x star (9 refinement pairs per solve) is left to the stateless slices
        for algo, menu in (("ext_spfs", [("a",), ("a", "b")]), ("superdtl", [("a",), ("a", "b"), ("b",)])):
            out.append({"slice": "e2e-session:3x3", "mode": "e2e", "algo": algo, "osh": osh, "ssh": ssh, "menu": menu,
                        "costs": [core[0], (0, 1, 2, 1, 1)], "session": True})
    if tier == "thorough":
        p4 = poly_shape_pairs(4, 3, min_obj=4, one_ternary_obj=True)
        out += L.split_plan("e2e-unordered:4x3(one 3-ary)", p4, umenu, 25, {"mode": "e2e", "algo": "superdtl", "costs": [core[0], core[1]]})
        out += L.split_plan("e2e-ordered:4x3(one 3-ary)", p4, [("a",), ("a", "b"), ("b", "a")], 25,
                            {"mode": "e2e", "algo": "ext_spfs", "costs": [core[0]]})
    return out


# ------------------------------------------------------------------ enumerator part
COLORS = ["FF0000", "00FF00", "0000FF"]
UNDERSCORE = ["d", "a", "b_c", "a_b", "c", "b"]


def named_tree(shape, offset=0, unnamed=False):
    """-> (ete tree, nested tuple of leaf names, {clade: (name, color or None)}); unnamed: every ancestor nameless;
    unnamed == "digits": every node named by a small decimal integer, leaves in descending order"""
    t = T(shape)
    names = {v: (f"L{v}" if not t.children[v] else ("" if unnamed else f"N{v}")) for v in range(t.n)}
    if unnamed == "digits":
        nl = len(t.leaves)
        names = {v: (str(nl - 1 - t.leaves.index(v)) if not t.children[v] else str(nl + t.internal.index(v))) for v in range(t.n)}
        if t.internal:
            names[t.internal[-1]] = "1x"   # an ancestor whose name starts like a leaf's
    if isinstance(unnamed, str) and unnamed.startswith("underscore:"):
        # leaf names in the package's <species>_<suffix> style whose concatenations collide ("a" + "b_c" against "a_b" + "c");
        # every rotation of the menu is run, so that every leaf position of every shape meets every name
        r = int(unnamed.split(":")[1])
        names = {v: (UNDERSCORE[(t.leaves.index(v) + r) % len(UNDERSCORE)] if not t.children[v] else f"N{v}") for v in range(t.n)}
    feats = {}
    for i, v in enumerate(t.internal):
        if (i + offset) % 2 == 0:
            feats[v] = {"color": COLORS[(i + offset) % 3]}
    tree = Tree(t.newick(names, feats), format=1)

    def nested(v):
        if not t.children[v]:
            return names[v]
        return tuple(nested(c) for c in t.children[v])

    info = {}
    for v in range(t.n):
        info[frozenset(names[x] for x in t.leaves_under(v))] = (names[v], feats.get(v, {}).get("color"))
    return tree, nested(t.root), info


def ete_nested(tree):
    if tree.is_leaf():
        return tree.name
    return tuple(ete_nested(c) for c in tree.children)


def ete_info(tree):
    out = {}
    for n in tree.traverse():
        out[frozenset(l.name for l in n.get_leaves())] = (n.name, getattr(n, "color", None))
    return out


def check_binarize(shape, offset=0, unnamed=False):
    tree, nested, info = named_tree(shape, offset, unnamed)
    before = tree.write(format=1, features=["color"], format_root_node=True)
    try:
        res = list(binarize(tree))
    except Exception as exc:
        return f"binarize raised {type(exc).__name__}: {exc}"
    if tree.write(format=1, features=["color"], format_root_node=True) != before:
        return "binarize modified its argument"
    want = refine.refinements(nested)
    if len(want) != refine.count_refinements(nested):
        return "harness: model refinement count disagrees with the (2k-3)!! formula"
    if len(res) != len(want):
        return f"binarize returned {len(res)} trees, expected {len(want)}"
    got_sets = []
    for r in res:
        for n in r.traverse():
            if not n.is_leaf() and len(n.children) != 2:
                return f"binarize returned a non-binary tree {r.write(format=9)}"
        if not is_binary(r):
            return "is_binary() rejects a tree returned by binarize"
        ri = ete_info(r)
        for cl, (name, color) in info.items():
            if cl not in ri:
                return f"refinement {r.write(format=9)} lost the clade {sorted(cl)}"
            if ri[cl][0] != name:
                return f"node carrying clade {sorted(cl)} is named {ri[cl][0]!r}, originally {name!r}"
            if ri[cl][1] != color:
                return f"node carrying clade {sorted(cl)} has colour {ri[cl][1]!r}, originally {color!r}"
        for cl, (name, color) in ri.items():
            if cl not in info and color is not None:
                return f"new node with clade {sorted(cl)} carries colour {color}"
        got_sets.append(refine.clades_of(ete_nested(r)))
    if len(set(got_sets)) != len(got_sets):
        return f"binarize returned duplicates ({len(got_sets)} trees, {len(set(got_sets))} distinct)"
    if set(got_sets) != {refine.clades_of(w) for w in want}:
        return "binarize's trees differ from the model's refinements"
    return None


def check_input_binarize(osh, ssh):
    O, S = T(osh), T(ssh)
    leafmap = {v: S.leaves[i % len(S.leaves)] for i, v in enumerate(O.leaves)}
    leafsyn = {v: ("a", "b")[: 1 + i % 2] for i, v in enumerate(O.leaves)}
    costs = (1, 3, 5, 2, 2)
    inp, onode, snode = A.build_input(O, S, leafmap, costs, leafsyn)
    try:
        outs = list(inp.binarize())
    except Exception as exc:
        return f"input.binarize raised {type(exc).__name__}: {exc}"
    on, _ = refine.labelled_from_shape(osh)
    sn, _ = refine.labelled_from_shape(ssh)
    if O.is_binary() and S.is_binary():
        if len(outs) != 1 or outs[0] is not inp:
            return "binary input not returned as is"
        return None
    want = {(refine.clades_of(a), refine.clades_of(b)) for a in refine.refinements(on) for b in refine.refinements(sn)}
    got = []
    oname = {onode[v].name: v for v in O.leaves}
    sname = {snode[v].name: v for v in S.leaves}
    for x in outs:
        def conv(tree, names):
            if tree.is_leaf():
                return names[tree.name]
            return tuple(conv(c, names) for c in tree.children)
        try:
            got.append((refine.clades_of(conv(x.object_tree, oname)), refine.clades_of(conv(x.species_lca.tree, sname))))
        except KeyError as exc:
            return f"input.binarize changed a leaf name: {exc}"
        if {k.name: v.name for k, v in x.leaf_object_species.items()} != {onode[k].name: snode[v].name for k, v in leafmap.items()}:
            return "input.binarize changed the leaf assignment"
        if {k.name: list(v) for k, v in x.leaf_syntenies.items()} != {onode[k].name: list(v) for k, v in leafsyn.items()}:
            return "input.binarize changed the leaf syntenies"
        if x.costs != inp.costs:
            return "input.binarize changed the costs"
        if x.species_lca.tree is not x.species_lca.tree.get_tree_root() or not is_binary(x.object_tree) or not is_binary(x.species_lca.tree):
            return "input.binarize produced a non-binary input"
    if len(got) != len(set(got)):
        return f"input.binarize yields duplicates: {len(got)} inputs, {len(set(got))} distinct"
    if set(got) != want:
        return f"input.binarize yields {len(got)} inputs, the model has {len(want)} refinement pairs (sets differ)"
    return None


# ------------------------------------------------------------------ end-to-end part
def clade_key(Ox, olab, Sx, slab, m, lab, is_ord):
    """solution -> frozenset of (object clade, species clade, synteny)"""
    oc = {v: frozenset(olab[x] for x in Ox.leaves_under(v)) for v in range(Ox.n)}
    sc = {v: frozenset(slab[x] for x in Sx.leaves_under(v)) for v in range(Sx.n)}
    # the key also identifies the refinement pair itself (two refinements that differ only in a part of the
    # species tree the mapping never touches are different solutions)
    return (frozenset(oc.values()), frozenset(sc.values()),
            frozenset((oc[v], sc[m[v]], tuple(lab[v]) if is_ord else tuple(sorted(lab[v]))) for v in range(Ox.n)))


def oracle_e2e(algo, O, S, leafmap, leafsyn, costs):
    """-> (global minimum, set of clade keys attaining it, #pairs, #pairs attaining)"""
    is_ord = L.SOLVERS[algo][1] == "ordered"
    on, _ = refine.labelled_from_shape(O.shape)
    sn, _ = refine.labelled_from_shape(S.shape)
    best = INF
    keys = set()
    pairs = attain = 0
    for a in refine.refinements(on):
        Ox, olab = refine.model_of(a)
        oinv = {lab_: v for v, lab_ in olab.items()}
        for b in refine.refinements(sn):
            Sx, slab = refine.model_of(b)
            sinv = {lab_: v for v, lab_ in slab.items()}
            pairs += 1
            lm = {oinv[o]: sinv[s] for o, s in leafmap.items()}
            ls = {oinv[o]: syn for o, syn in leafsyn.items()}
            c, sols = L.oracle(algo, Ox, Sx, lm, ls, costs, canonical_only=True)
            if c < best:
                best, keys, attain = c, set(), 0
            if c == best and c < INF:
                attain += 1
                for mkey, lkey in sols:
                    keys.add(clade_key(Ox, olab, Sx, slab, dict(mkey), dict(lkey), is_ord))
    return best, keys, pairs, attain


SESSION_COLOURS = ["AA00AA", "00AA00", "0000AA"]


def check_e2e(algo, O, S, leafmap, leafsyn, costs, session=None, epoch=0):
    """-> (bad, nontrivial).  With a session the SAME input object is solved again after its trees were edited in place
    (ancestor names and the colour change with the epoch) and its leaf data updated in place."""
    fn, model, _ = L.SOLVERS[algo]
    is_ord = model == "ordered"
    best, want, pairs, attain = oracle_e2e(algo, O, S, leafmap, leafsyn, costs)
    nontriv = pairs >= 3 or attain < pairs
    # the ancestors of the input already carry names of the form the solvers generate for new nodes (O#/S#), as after a
    # label_internal() call or a round through the command-line tool
    onames = {v: (f"O{v}" if O.children[v] else f"o{v}") for v in range(O.n)}
    snames = {v: (f"S{v}" if S.children[v] else f"s{v}") for v in range(S.n)}
    ofe = {v: {"color": "AA00AA"} for v in O.internal[:1]}
    if session is not None:
        snames = {v: session.snode[v].name for v in range(S.n)}
        onames = {v: (f"o{v}e{epoch}" if O.children[v] else f"o{v}") for v in range(O.n)}
        ofe = {v: {"color": SESSION_COLOURS[epoch % 3]} for v in O.internal[:1]}
        for v in O.internal:
            session.onode[v].name = onames[v]
        for v, f in ofe.items():
            session.onode[v].add_feature("color", f["color"])
    results = {}
    for policy in ("ALL", "ANY"):
        if session is not None:
            inp, onode, snode = session.set(leafmap, costs, leafsyn)
        else:
            inp, onode, snode = A.build_input(O, S, leafmap, costs, leafsyn, onames, snames, ofeats=ofe, unordered=not is_ord)
        oleaf = {onode[v].name: v for v in O.leaves}
        sleaf = {snode[v].name: v for v in S.leaves}
        oinfo = {frozenset(O.leaves_under(v)): (onames[v], ofe.get(v, {}).get("color")) for v in range(O.n)}
        sinfo = {frozenset(S.leaves_under(v)): snames[v] for v in range(S.n)}
        try:
            outs = list(fn(inp, A.POLICY[policy]))
        except Exception as exc:
            return ("exception", f"{algo}/{policy} raised {type(exc).__name__}: {exc}\n{traceback.format_exc(limit=5)}"), nontriv
        keys = []
        for out in outs:
            try:
                O2, oidx = A.model_from_ete(out.input.object_tree)
                S2, sidx = A.model_from_ete(out.input.species_lca.tree)
                if not O2.is_binary() or not S2.is_binary():
                    return ("not_binary", f"{algo}/{policy}: solution refers to a non-binary tree"), nontriv
                olab = {oidx[n]: oleaf[n.name] for n in out.input.object_tree.iter_leaves()}
                slab = {sidx[n]: sleaf[n.name] for n in out.input.species_lca.tree.iter_leaves()}
                names_o = [n.name for n in out.input.object_tree.traverse()]
                names_s = [n.name for n in out.input.species_lca.tree.traverse()]
                if len(set(names_o)) != len(names_o) or "" in names_o or len(set(names_s)) != len(names_s) or "" in names_s:
                    return ("names", f"{algo}/{policy}: nodes of a refined tree are not uniquely named: {names_o} {names_s}"), nontriv
                # refinement: every original clade present with its name / colour
                oc = {frozenset(olab[oidx[l]] for l in n.iter_leaves()): n for n in out.input.object_tree.traverse()}
                sc = {frozenset(slab[sidx[l]] for l in n.iter_leaves()): n for n in out.input.species_lca.tree.traverse()}
                for cl, (nm, col) in oinfo.items():
                    if cl not in oc:
                        return ("not_refinement", f"{algo}/{policy}: object clade {sorted(cl)} lost"), nontriv
                    if oc[cl].name != nm or getattr(oc[cl], "color", None) != col:
                        return ("name_colour", f"{algo}/{policy}: object node of clade {sorted(cl)} is {oc[cl].name!r}/"
                                f"{getattr(oc[cl], 'color', None)!r}, originally {nm!r}/{col!r}"), nontriv
                for cl, nm in sinfo.items():
                    if cl not in sc:
                        return ("not_refinement", f"{algo}/{policy}: species clade {sorted(cl)} lost"), nontriv
                    if sc[cl].name != nm:
                        return ("name_colour", f"{algo}/{policy}: species node of clade {sorted(cl)} is {sc[cl].name!r}, originally {nm!r}"), nontriv
                # leaf data
                for k, v in out.input.leaf_object_species.items():
                    if leafmap[oleaf[k.name]] != sleaf[v.name]:
                        return ("leaf_data", f"{algo}/{policy}: leaf {k.name} assigned to {v.name}"), nontriv
                for k, v in out.input.leaf_syntenies.items():
                    if (tuple(v) != tuple(leafsyn[oleaf[k.name]])) if is_ord else (set(v) != set(leafsyn[oleaf[k.name]])):
                        return ("leaf_data", f"{algo}/{policy}: leaf {k.name} has synteny {v}"), nontriv
                m = {oidx[k]: sidx[v] for k, v in out.object_species.items()}
                lab = {oidx[k]: (tuple(v) if is_ord else frozenset(v)) for k, v in out.syntenies.items()}
                c = A.impl_cost(out.cost())
            except Exception as exc:
                return ("malformed", f"{algo}/{policy}: {type(exc).__name__}: {exc}\n{traceback.format_exc(limit=4)}"), nontriv
            if c != best:
                return ("suboptimal", f"{algo}/{policy} returned cost {c}; minimum over all {pairs} refinement pairs is {best}"), nontriv
            keys.append(clade_key(O2, olab, S2, slab, m, lab, is_ord))
        results[policy] = keys
    if best == INF:
        if results["ALL"] or results["ANY"]:
            return ("nonempty_when_impossible", f"{algo} returned solutions but no refinement has one"), nontriv
        return None, nontriv
    allk = results["ALL"]
    if len(set(allk)) != len(allk):
        return ("all_duplicates", f"{algo}/ALL returned {len(allk)} solutions, {len(set(allk))} distinct"), nontriv
    if set(allk) != want:
        return ("all_set", f"{algo}/ALL returned {len(allk)} solutions, the union of per-refinement optimal sets has {len(want)} "
                f"(missing {len(want - set(allk))}, extra {len(set(allk) - want)})"), nontriv
    if len(results["ANY"]) != 1 or results["ANY"][0] not in want:
        return ("any", f"{algo}/ANY returned {len(results['ANY'])} solutions / not a member of the optimal set"), nontriv
    return None, nontriv


def run_shard(shard, tier, seed):
    mode = shard["mode"]
    n_eval = nt = vtotal = 0
    viols = []
    samples = []

    def report(sub, detail, case):
        nonlocal vtotal
        vtotal += 1
        if len(viols) < 6 and not any(v["subcheck"] == sub for v in viols):
            viols.append({"property": PROP, "subcheck": sub, "case": case, "detail": detail})

    if mode == "enum":
        for j, shape in enumerate(shard["shapes"]):
            n_eval += 1
            off = shard["offset"] + j
            bad = check_binarize(shape, off)
            case = {"mode": "enum", "shape": shape, "offset": off}
            if not bad:
                # the same tree with nameless ancestors (ete3 gives them all the same empty name)
                n_eval += 1
                bad = check_binarize(shape, off, unnamed=True)
                if bad:
                    bad = "with unnamed ancestors: " + bad
                    case = dict(case, unnamed=True)
            if not bad:
                n_eval += 1
                bad = check_binarize(shape, off, unnamed="digits")
                if bad:
                    bad = "with nodes named by small integers: " + bad
                    case = dict(case, unnamed="digits")
            if not bad and len(T(shape).leaves) >= 3 and not T(shape).is_binary():
                for r in range(len(UNDERSCORE)):
                    n_eval += 1
                    bad = check_binarize(shape, off, unnamed=f"underscore:{r}")
                    if bad:
                        bad = f"with leaf names {UNDERSCORE} rotated by {r}: " + bad
                        case = dict(case, unnamed=f"underscore:{r}")
                        break
            if not T(shape).is_binary():
                nt += 1
            if bad:
                report("binarize", bad, case)
            if not samples:
                samples.append(case)
    elif mode == "input":
        n_eval += 1
        bad = check_input_binarize(shard["osh"], shard["ssh"])
        case = {"mode": "input", "object_shape": shard["osh"], "species_shape": shard["ssh"]}
        if not (T(shard["osh"]).is_binary() and T(shard["ssh"]).is_binary()):
            nt += 1
        if bad:
            report("input_binarize", bad, case)
        samples.append(case)
    else:
        osh, ssh = shard["osh"], shard["ssh"]
        O, S = T(osh), T(ssh)
        algo = shard["algo"]
        sess = None
        if shard.get("session"):
            sess = A.Session(O, S, labelled=True, unordered=(L.SOLVERS[algo][1] != "ordered"))
        epoch = 0
        for leafmap, leafsyn in L.labelled_inputs(O, S, shard["menu"], shard.get("part")):
            if algo == "ext_spfs" and not ordered.root_orders(leafsyn):
                continue
            for costs in shard["costs"]:
                n_eval += 1
                epoch += 1
                bad, is_nt = check_e2e(algo, O, S, leafmap, leafsyn, costs, session=sess, epoch=epoch)
                if is_nt:
                    nt += 1
                case = dict(L.case_json(osh, ssh, leafmap, leafsyn, costs, algo), mode="e2e")
                if sess is not None:
                    case["session_shard"] = A.pack(shard)
                    if bad:
                        bad = ("session_" + bad[0], f"solve #{epoch} of the same input object after in-place edits: " + bad[1])
                if bad:
                    report(bad[0], bad[1], case)
                if not samples:
                    samples.append(case)
    return {"evaluations": n_eval, "nontrivial": nt, "samples": samples, "violations": viols, "violations_total": vtotal}


def replay(v):
    c = v["case"]
    if c.get("session_shard"):
        res = run_shard(A.unpack(c["session_shard"]), "quick", 0)
        hits = [x for x in res["violations"] if x["subcheck"] == v.get("subcheck")] or res["violations"]
        return {"violated": bool(hits), "detail": (hits[0]["subcheck"] + ": " + hits[0]["detail"]) if hits else None}
    if c["mode"] == "enum":
        bad = check_binarize(shape_from_json(c["shape"]), c.get("offset", 0), c.get("unnamed", False))
        return {"violated": bool(bad), "detail": bad}
    if c["mode"] == "input":
        bad = check_input_binarize(shape_from_json(c["object_shape"]), shape_from_json(c["species_shape"]))
        return {"violated": bool(bad), "detail": bad}
    osh, ssh, O, S, leafmap, leafsyn, costs, _ = L.case_from_json(c)
    bad, _ = check_e2e(c["algorithm"], O, S, leafmap, leafsyn, costs)
    return {"violated": bool(bad), "detail": (bad[0] + ": " + bad[1]) if bad else None}
