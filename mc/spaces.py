"""Enumerators of the finite input spaces (DESIGN section 4).  Everything here is
deterministic and complete: no sampling."""
import itertools

from .refmodel.trees import T, binary_shapes, schroeder_shapes, shape_leaves  # noqa: F401
from .refmodel.dtl import INF

# ------------------------------------------------------------------ cost menus
# (spe, dup, hgt, floss, sloss)
CV_CORE = [
    (0, 1, 1, 1, 1),      # default
    (1, 1, 1, 1, 1),      # spe > 0
    (1, 3, 5, 2, 2),      # pairwise distinct weights that break ties
    (0, 1, 1, 0, 0),      # floss = 0
    (0, 1, 1, 1, 0),      # sloss = 0
    (0, 0, 1, 1, 1),      # dup = 0
    (0, 1, 0, 1, 1),      # hgt = 0
    (0, 1, INF, 1, 1),    # hgt = inf
]


# all five unit costs pairwise distinct, none equal to 1, transfer cheaper than duplication: a table entry that uses the
# wrong unit cost, or a count instead of a cost, cannot coincide with the right one
CV_DISTINCT = (2, 7, 5, 4, 3)
CV_SLOSS3 = (0, 3, 1, 2, 3)


def coherent(c):
    """region in which optimisers and evaluator agree (F-COHERENCE, DESIGN 9.1)"""
    return c[0] + 2 * c[4] <= c[1] + 2 * c[3]


def coherent_plain(c):
    return c[0] <= c[1] + 2 * c[3]


def cv_grid():
    out = []
    for spe, dup, fl, sl in itertools.product((0, 1, 2), repeat=4):
        for hgt in (0, 1, 2, INF):
            out.append((spe, dup, hgt, fl, sl))
    return out


def cv_grid_plain(coherent_only=True):
    out = []
    for spe, dup, fl in itertools.product((0, 1, 2), repeat=3):
        for hgt in (0, 1, 2, INF):
            c = (spe, dup, hgt, fl, 1)
            if not coherent_only or coherent_plain(c):
                out.append(c)
    return out


def plain_core():
    """CV_CORE projected on the four costs a plain reconciliation uses, duplicates removed"""
    seen = []
    for c in CV_CORE:
        p = c[:4] + (1,)
        if p not in seen and coherent_plain(p):
            seen.append(p)
    return seen


# ------------------------------------------------------------------ tree pairs
def shape_pairs(max_obj, max_sp, min_obj=1, min_sp=1, shapes=binary_shapes, sshapes=None):
    """(object shape, species shape) pairs, simplest first"""
    sshapes = sshapes or shapes
    out = []
    for no in range(min_obj, max_obj + 1):
        for ns in range(min_sp, max_sp + 1):
            for osh in shapes(no):
                for ssh in sshapes(ns):
                    out.append((osh, ssh))
    out.sort(key=lambda p: (shape_leaves(p[0]) + shape_leaves(p[1]), shape_leaves(p[0])))
    return out


def assignments(O, S):
    """every function from object leaves to species leaves"""
    for asg in itertools.product(S.leaves, repeat=len(O.leaves)):
        yield dict(zip(O.leaves, asg))


def count_assignments(osh, ssh):
    return shape_leaves(ssh) ** shape_leaves(osh)


# ------------------------------------------------------------------ syntenies
FAMILIES = "abcd"


def ordered_syntenies(nfam):
    fam = FAMILIES[:nfam]
    return [tuple(p) for k in range(1, nfam + 1) for p in itertools.permutations(fam, k)]


def unordered_syntenies(nfam):
    fam = FAMILIES[:nfam]
    return [tuple(p) for k in range(1, nfam + 1) for p in itertools.combinations(fam, k)]


def canonical_first_appearance(tup_of_syn):
    """True iff families are numbered by first appearance (a before b before c ...)"""
    nxt = 0
    for syn in tup_of_syn:
        for f in syn:
            i = FAMILIES.index(f)
            if i > nxt:
                return False
            if i == nxt:
                nxt += 1
    return True


_CLOSED = {}
_ORDERED_MENUS = set()


def subsequence_syntenies(nf):
    """the non-empty subsequences of the first nf families in alphabetical order, as a menu for the *ordered* algorithms
    (every member is a sorted tuple, so the menu is registered as ordered: it is not closed under renaming of families)"""
    menu = [s_ for s_ in ordered_syntenies(nf) if s_ == tuple(sorted(s_))]
    _ORDERED_MENUS.add(tuple(menu))
    return menu



def closed_under_renaming(menu, ordered=None):
    """True iff the menu is mapped onto itself by every permutation of the families it uses (as sets for the unordered
    menus, as sequences for the ordered ones); only then is "up to renaming of families" a sound reduction of the tuples"""
    if ordered is None:
        ordered = tuple(menu) in _ORDERED_MENUS or any(tuple(s_) != tuple(sorted(s_)) for s_ in menu)
    key = (tuple(menu), ordered)
    if key not in _CLOSED:
        fams = sorted({f for s_ in menu for f in s_})
        ordered_menu = ordered
        norm = (lambda x: tuple(x)) if ordered_menu else (lambda x: tuple(sorted(x)))
        have = {norm(s_) for s_ in menu}
        ok = True
        for perm in itertools.permutations(fams):
            ren = dict(zip(fams, perm))
            if {norm(tuple(ren[f] for f in s_)) for s_ in menu} != have:
                ok = False
                break
        _CLOSED[key] = ok
    return _CLOSED[key]


def synteny_tuples(nleaves, menu, ordered=None):
    """tuples of leaf syntenies; up to bijective renaming of families when the menu is closed under renaming (a restricted
    menu such as 'subsequences of abc' is enumerated in full: reducing it would drop tuples whose renamed twin is not in it)"""
    reduce_ = closed_under_renaming(menu, ordered)
    for tup in itertools.product(menu, repeat=nleaves):
        if not reduce_ or canonical_first_appearance(tup):
            yield tup


def chain_shapes(n):
    """plane binary shapes with n leaves whose internal nodes form one chain (every internal node has at most one
    internal child): the deepest object trees of their size (2^(n-2) shapes)"""
    def is_chain(sh):
        if sh is None:
            return True
        l, r = sh
        if l is not None and r is not None:
            return False
        return is_chain(l) and is_chain(r)
    return [sh for sh in binary_shapes(n) if is_chain(sh)]
