"""Bridge between the integer reference models and the superrec2 API."""
import os
import sys

os.environ.setdefault("TQDM_DISABLE", "1")
_src = os.environ.get("VERIF_REPO_SRC", "/repo/src")
if _src not in sys.path:
    sys.path.insert(0, _src)

from ete3 import Tree  # noqa: E402
from infinity import inf  # noqa: E402
import superrec2  # noqa: E402
from superrec2.utils.trees import LowestCommonAncestor  # noqa: E402
from superrec2.utils.dynamic_programming import RetentionPolicy  # noqa: E402
from superrec2.model.reconciliation import (  # noqa: E402
    NodeEvent,
    EdgeEvent,
    ReconciliationInput,
    ReconciliationOutput,
    SuperReconciliationInput,
    SuperReconciliationOutput,
)

from .refmodel.trees import T  # noqa: E402
from .refmodel.dtl import INF  # noqa: E402

_real = os.path.realpath(os.path.dirname(superrec2.__file__))
_want = os.path.realpath(os.path.join(_src, "superrec2"))
if _real != _want:
    raise RuntimeError(f"superrec2 imported from {_real}, expected {_want}")

POLICY = {"ALL": RetentionPolicy.ALL, "ANY": RetentionPolicy.ANY}
KIND = {NodeEvent.SPECIATION: "S", NodeEvent.DUPLICATION: "D", NodeEvent.HORIZONTAL_TRANSFER: "T",
        NodeEvent.LEAF: "L", NodeEvent.INVALID: "X"}


def cost_dict(costs):
    """(spe, dup, hgt, floss[, sloss]) -> CostValues"""
    c = list(costs) + [1] * (5 - len(costs))
    conv = lambda x: inf if x == INF else x  # noqa: E731
    return {
        NodeEvent.SPECIATION: conv(c[0]),
        NodeEvent.DUPLICATION: conv(c[1]),
        NodeEvent.HORIZONTAL_TRANSFER: conv(c[2]),
        EdgeEvent.FULL_LOSS: conv(c[3]),
        EdgeEvent.SEGMENTAL_LOSS: conv(c[4]),
    }


def costs_to_json(costs):
    return ["inf" if x == INF else x for x in costs]


def costs_from_json(costs):
    return tuple(INF if x == "inf" else x for x in costs)


def default_names(tree, prefix):
    return {v: f"{prefix}{v}" for v in range(tree.n)}


def build_trees(O, S, onames=None, snames=None, ofeats=None, sfeats=None):
    on = onames or default_names(O, "o")
    sn = snames or default_names(S, "s")
    ot = Tree(O.newick(on, ofeats), format=1)
    st = Tree(S.newick(sn, sfeats), format=1)
    return ot, st, on, sn


def nodes_by_index(tree_model, ete_tree):
    """model node index -> ete3 node, matched by pre-order position (names may be
    empty or duplicated, so they are not used)"""
    out = {}
    for v, node in zip(tree_model.order_pre(), ete_tree.traverse("preorder")):
        out[v] = node
    return out


DICT_ORDERS = ("pre", "rev", "mid")


def dict_order_of(leafmap):
    """the order in which the leaf dictionaries of an input are written is part of its presentation; it is varied as a
    deterministic function of the input itself (so that a replay rebuilds the same dictionaries)"""
    return DICT_ORDERS[sum((i + 1) * (v + 1) for i, (_, v) in enumerate(sorted(leafmap.items()))) % 3]


def ordered_leaves(leaves, order):
    leaves = list(leaves)
    if order == "rev":
        return leaves[::-1]
    if order == "mid":
        h = len(leaves) // 2
        return leaves[h:] + leaves[:h]
    return leaves


def build_input(O, S, leafmap, costs, leafsyn=None, onames=None, snames=None, ofeats=None, sfeats=None,
                unordered=False, rootsyn=None, order=None):
    """-> (input, onode, snode) where onode/snode map model ids to ete3 nodes.  The leaf dictionaries are written in
    left-to-right leaf order, reversed, or rotated by half (order = "pre" / "rev" / "mid"; default: derived from the input)"""
    pres_order = order or dict_order_of(leafmap)
    if leafsyn is None and onames is None and pres_order == "rev":
        # plain reconciliation inputs: every other presentation has NAMELESS object ancestors (plain Newick without labels)
        onames = {v: ("" if O.children[v] else f"o{v}") for v in range(O.n)}
    ot, st, on, sn = build_trees(O, S, onames, snames, ofeats, sfeats)
    onode = nodes_by_index(O, ot)
    snode = nodes_by_index(S, st)
    if pres_order == "mid":
        # branch lengths are not part of the model: trees carrying lengths other than 1 must give the same results
        for v, node in snode.items():
            node.dist = 0.25 + (v % 3)
        for v, node in onode.items():
            node.dist = 3.0 if v % 2 else 0.5
    keys = ordered_leaves(sorted(leafmap), pres_order)
    los = {onode[v]: snode[leafmap[v]] for v in keys}
    cd = cost_dict(costs)
    lca = LowestCommonAncestor(st)
    if leafsyn is None:
        return ReconciliationInput(ot, lca, los, cd), onode, snode
    # ordered syntenies are typed as lists or as tuples (any sequence is a synteny), again as a function of the input
    seq = list if (order or dict_order_of(leafmap)) != "rev" else tuple
    syn = {onode[v]: (set(leafsyn[v]) if unordered else seq(leafsyn[v])) for v in keys if v in leafsyn}
    if rootsyn is not None:
        syn[onode[O.root]] = seq(rootsyn) if not unordered else list(rootsyn)
    return SuperReconciliationInput(ot, lca, los, cd, syn), onode, snode


def pack(obj):
    import base64
    import pickle
    return base64.b64encode(pickle.dumps(obj)).decode()


def unpack(text):
    import base64
    import pickle
    return pickle.loads(base64.b64decode(text))


class Session:
    """Operation histories on shared objects: ONE object tree, ONE species tree, ONE LowestCommonAncestor, ONE input object
    whose leaf assignment / cost / synteny dicts are updated IN PLACE from one case to the next - the way a caller who
    sweeps assignments, costs or syntenies over fixed trees works (the package's own tests mutate `costs` in place).
    `unnamed=True` leaves the ancestors of both trees without a name."""

    def __init__(self, O, S, labelled=False, unordered=False, unnamed=False):
        self.O, self.S, self.labelled, self.unordered = O, S, labelled, unordered
        on = {v: ("" if (unnamed and O.children[v]) else f"o{v}") for v in range(O.n)}
        sn = {v: ("" if (unnamed and S.children[v]) else f"s{v}") for v in range(S.n)}
        self.ot, self.st, _, _ = build_trees(O, S, on, sn)
        self.onode = nodes_by_index(O, self.ot)
        self.snode = nodes_by_index(S, self.st)
        for v, node in self.snode.items():
            node.dist = 0.5 + (v % 3)          # branch lengths other than 1 (not part of the model)
        self.unnamed = unnamed
        self.lca = LowestCommonAncestor(self.st)
        self.los, self.costs, self.syn = {}, {}, {}
        if labelled:
            self.inp = SuperReconciliationInput(self.ot, self.lca, self.los, self.costs, self.syn)
        else:
            self.inp = ReconciliationInput(self.ot, self.lca, self.los, self.costs)
        self.calls = 0

    def rebuild(self, O):
        """give the SAME root node object of the object tree a new topology (all former descendants detached, new ones
        attached): anything remembered about the old tree under the identity of its root is now stale"""
        root = self.ot
        for c in list(root.children):
            c.detach()
        self.O = O
        name = lambda v: ("" if (self.unnamed and O.children[v]) else f"o{v}")   # noqa: E731
        root.name = name(O.root)
        self.onode = {O.root: root}
        for v in O.order_pre():
            if O.parent[v] is not None:
                self.onode[v] = self.onode[O.parent[v]].add_child(name=name(v))
        self.los.clear()
        self.syn.clear()

    def rebuild_species(self, S):
        """give the species tree a new topology built from the SAME node objects, handed out in the opposite order (so
        that every node object sits at another place of the tour than before, former leaves become ancestors and the
        other way round), with a fresh LowestCommonAncestor and a fresh input object over the same dicts: anything
        remembered about a species node object by an earlier structure is now stale"""
        root = self.st
        old = list(root.traverse("preorder"))
        for n in old:
            for c in list(n.children):
                c.detach()
        pool = [n for n in old if n is not root][::-1]
        self.S = S
        name = lambda v: ("" if (self.unnamed and S.children[v]) else f"s{v}")   # noqa: E731
        root.name = name(S.root)
        self.snode = {S.root: root}
        for v in S.order_pre():
            if S.parent[v] is not None:
                node = pool.pop(0) if pool else type(root)()
                node.name = name(v)
                self.snode[S.parent[v]].add_child(child=node)
                self.snode[v] = node
        for v, node in self.snode.items():
            node.dist = 0.5 + (v % 3)
        self.lca = LowestCommonAncestor(self.st)
        self.los.clear()
        if self.labelled:
            self.inp = SuperReconciliationInput(self.ot, self.lca, self.los, self.costs, self.syn)
        else:
            self.inp = ReconciliationInput(self.ot, self.lca, self.los, self.costs)

    def set(self, leafmap, costs, leafsyn=None, rootsyn=None):
        """update the shared input in place; -> (input, onode, snode)"""
        for v, sp in leafmap.items():
            self.los[self.onode[v]] = self.snode[sp]
        self.costs.update(cost_dict(costs))
        if self.labelled:
            root = self.onode[self.O.root]
            if rootsyn is None:
                self.syn.pop(root, None)
            else:
                self.syn[root] = list(rootsyn)
            for v, x in leafsyn.items():
                self.syn[self.onode[v]] = (set(x) if self.unordered else list(x))
        self.calls += 1
        return self.inp, self.onode, self.snode


def build_output(O, S, leafmap, costs, m, onames=None, snames=None, ofeats=None, sfeats=None):
    inp, onode, snode = build_input(O, S, leafmap, costs, None, onames, snames, ofeats, sfeats)
    out = ReconciliationOutput(inp, {onode[v]: snode[s] for v, s in m.items()})
    return out, onode, snode


def build_super_output(O, S, leafmap, costs, leafsyn, m, lab, ordered, onames=None, snames=None,
                       ofeats=None, sfeats=None):
    inp, onode, snode = build_input(O, S, leafmap, costs, leafsyn, onames, snames, ofeats, sfeats,
                                    unordered=not ordered)
    out = SuperReconciliationOutput(
        input=inp,
        object_species={onode[v]: snode[s] for v, s in m.items()},
        syntenies={onode[v]: (list(x) if ordered else set(x)) for v, x in lab.items()},
        ordered=ordered,
    )
    return out, onode, snode


def inverse(nodemap):
    return {node: v for v, node in nodemap.items()}


def mapping_of(out, onode, snode):
    """solver output -> model mapping dict (may be partial / contain foreign nodes -> None)"""
    oi = inverse(onode)
    si = inverse(snode)
    return {oi.get(k): si.get(v) for k, v in out.object_species.items()}


def labelling_of(out, onode, ordered):
    oi = inverse(onode)
    if ordered:
        return {oi.get(k): tuple(v) for k, v in out.syntenies.items()}
    return {oi.get(k): frozenset(v) for k, v in out.syntenies.items()}


def impl_cost(x):
    """implementation cost -> model number"""
    try:
        if x == inf:
            return INF
    except Exception:
        pass
    return x


def model_from_ete(tree):
    """ete3 tree -> (T, {ete node: model index}) by pre-order position"""
    def shape(node):
        if node.is_leaf():
            return None
        return tuple(shape(c) for c in node.children)

    t = T(shape(tree))
    idx = {}
    for v, node in zip(t.order_pre(), tree.traverse("preorder")):
        idx[node] = v
    return t, idx
