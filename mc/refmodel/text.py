"""Reference helpers for text: greedy wrapping, TeX escaping, a small TikZ scanner."""
import re


def greedy_wrap(words, width):
    lines = []
    cur = ""
    for w in words:
        if not cur:
            cur = w
        elif len(cur) + 1 + len(w) <= width:
            cur += " " + w
        else:
            lines.append(cur)
            cur = w
    if cur:
        lines.append(cur)
    return lines


def escape(text):
    """independent statement of the escaping rule: backslash -> two backslashes, underscore -> backslash underscore"""
    out = []
    for ch in text:
        if ch == "\\":
            out.append("\\\\")
        elif ch == "_":
            out.append("\\_")
        else:
            out.append(ch)
    return "".join(out)


def check_wrap(words, width, wrapped):
    """None or reason: words kept in order, no line longer than width unless a single word, no more lines than greedy"""
    lines = wrapped.split("\n") if wrapped else []
    got = " ".join(lines).split()
    if got != list(words):
        return f"words changed: {got} != {list(words)}"
    for ln in lines:
        if len(ln) > width and " " in ln.strip():
            return f"line {ln!r} longer than {width}"
        if ln != ln.strip():
            return f"line {ln!r} has surrounding blanks"
    g = greedy_wrap(words, width)
    if len(lines) > len(g):
        return f"{len(lines)} lines, greedy wrapping needs {len(g)}"
    return None


def brace_balance(text):
    """None or reason; a backslash escapes the next character"""
    depth = 0
    i = 0
    n = len(text)
    while i < n:
        ch = text[i]
        if ch == "\\":
            i += 2
            continue
        if ch == "{":
            depth += 1
        elif ch == "}":
            depth -= 1
            if depth < 0:
                return f"unmatched closing brace at offset {i}"
        i += 1
    if depth:
        return f"{depth} unclosed brace(s)"
    return None


def split_picture(text):
    """-> (preamble, body, epilogue) around the single tikzpicture environment, or raises ValueError"""
    b = "\\begin{tikzpicture}"
    e = "\\end{tikzpicture}"
    if text.count(b) != 1 or text.count(e) != 1:
        raise ValueError(f"{text.count(b)} \\begin{{tikzpicture}} / {text.count(e)} \\end{{tikzpicture}}")
    i, j = text.index(b), text.index(e)
    if j < i:
        raise ValueError("\\end{tikzpicture} before \\begin{tikzpicture}")
    return text[:i], text[i + len(b):j], text[j + len(e):]


def statements(body):
    """split the picture body into statements terminated by ';' at brace depth 0 (comment lines dropped);
    raises ValueError on trailing unterminated material"""
    lines = [ln for ln in body.split("\n") if not ln.lstrip().startswith("%")]
    text = "\n".join(lines)
    out = []
    cur = []
    depth = 0
    i = 0
    n = len(text)
    while i < n:
        ch = text[i]
        if ch == "\\" and i + 1 < n:
            cur.append(text[i:i + 2])
            i += 2
            continue
        if ch == "{":
            depth += 1
        elif ch == "}":
            depth -= 1
        if ch == ";" and depth == 0:
            out.append("".join(cur).strip())
            cur = []
        else:
            cur.append(ch)
        i += 1
    rest = "".join(cur).strip()
    if rest:
        raise ValueError(f"unterminated statement: {rest[:80]!r}")
    return out


def brace_group(text, start):
    """text[start] == '{' -> (content, index after the closing brace)"""
    assert text[start] == "{"
    depth = 0
    i = start
    while i < len(text):
        ch = text[i]
        if ch == "\\":
            i += 2
            continue
        if ch == "{":
            depth += 1
        elif ch == "}":
            depth -= 1
            if depth == 0:
                return text[start + 1:i], i + 1
        i += 1
    raise ValueError("unbalanced group")


NODE_RE = re.compile(r"^\\node\[(extant gene|speciation|duplication|horizontal gene transfer|loss)=")


def parse_node(stmt):
    """\\node[kind={colour}...] at (x,y) {label}; -> dict or None if not an event node"""
    m = NODE_RE.match(stmt)
    if not m:
        return None
    kind = m.group(1)
    pos = m.end()
    colour, pos = brace_group(stmt, pos)
    label = None
    if kind == "extant gene":
        label, pos = brace_group(stmt, pos)
    at = re.search(r"\] at \(([-0-9.e]+),([-0-9.e]+)\) ", stmt[pos - 1:])
    if not at:
        raise ValueError(f"no position in {stmt[:80]!r}")
    tail = stmt[pos - 1 + at.end():]
    body, _ = brace_group(tail, 0)
    if kind != "extant gene":
        label = body
    return {"kind": kind, "colour": colour, "label": label, "x": float(at.group(1)), "y": float(at.group(2))}


def definecolors(preamble):
    return {m.group(1): m.group(2) for m in re.finditer(r"\\definecolor\{(\w+)\}\{HTML\}\{(\w+)\}", preamble)}
