"""Reference model of the documented DTL event model (no superrec2 imports).

Costs are tuples (spe, dup, hgt, floss[, sloss]); hgt may be INF.
A mapping is a dict object-node -> species-node over *all* object nodes.
"""
import itertools

INF = float("inf")


def event(S, s, sl, sr):
    """Event of a node mapped to s whose children are mapped to sl, sr.

    Returns (kind, full_losses, conserved_side) with kind in 'S','D','T' and
    conserved_side 0/1 for transfers (None otherwise), or None when invalid."""
    if S.sanc(sl, s) or S.sanc(sr, s):
        return None
    al, ar = S.anc(s, sl), S.anc(s, sr)
    if al and ar:
        if sl != s and sr != s and S.lca(sl, sr) == s:
            return ("S", S.depth[sl] + S.depth[sr] - 2 * S.depth[s] - 2, None)
        return ("D", S.depth[sl] + S.depth[sr] - 2 * S.depth[s], None)
    if al:
        return ("T", S.depth[sl] - S.depth[s], 0)
    if ar:
        return ("T", S.depth[sr] - S.depth[s], 1)
    return None


def events_of(O, S, leafmap, m):
    """dict internal node -> event, or None if the mapping is invalid"""
    for v in O.leaves:
        if m.get(v) != leafmap[v]:
            return None
    evs = {}
    for v in O.internal:
        l, r = O.children[v]
        if v not in m or l not in m or r not in m:
            return None
        e = event(S, m[v], m[l], m[r])
        if e is None:
            return None
        evs[v] = e
    return evs


def cost_of_events(evs, costs):
    spe, dup, hgt, fl = costs[:4]
    unit = {"S": spe, "D": dup, "T": hgt}
    tot = 0
    for e in evs.values():
        tot += unit[e[0]] + fl * e[1]
    return tot


def cost_of(O, S, leafmap, costs, m):
    evs = events_of(O, S, leafmap, m)
    if evs is None:
        return INF
    return cost_of_events(evs, costs)


def valid_mappings(O, S, leafmap, fixed_map=None):
    """every valid mapping (with its events), by filtering all |S|^internal assignments"""
    internal = O.internal
    doms = [range(S.n) if fixed_map is None else [fixed_map[v]] for v in internal]
    for assign in itertools.product(*doms):
        m = dict(leafmap)
        m.update(zip(internal, assign))
        ok = True
        evs = {}
        for v in internal:
            l, r = O.children[v]
            e = event(S, m[v], m[l], m[r])
            if e is None:
                ok = False
                break
            evs[v] = e
        if ok:
            yield m, evs


def brute(O, S, leafmap, costs, fixed_map=None):
    """(minimum, list of optimal mappings, number of valid mappings)"""
    best = INF
    sols = []
    nvalid = 0
    for m, evs in valid_mappings(O, S, leafmap, fixed_map):
        nvalid += 1
        c = cost_of_events(evs, costs)
        if c < best:
            best = c
            sols = []
        if c == best and c < INF:
            sols.append(m)
    return best, sols, nvalid


def bellman(O, S, leafmap, costs):
    """textbook recursion best(v, s) = min over (sl, sr); returns (min, optimal mappings)"""
    spe, dup, hgt, fl = costs[:4]
    unit = {"S": spe, "D": dup, "T": hgt}
    best = {}
    arg = {}
    for v in O.order_post():
        if not O.children[v]:
            for s in range(S.n):
                best[v, s] = 0 if s == leafmap[v] else INF
            continue
        l, r = O.children[v]
        for s in range(S.n):
            b = INF
            a = []
            for sl in range(S.n):
                if best[l, sl] == INF:
                    continue
                for sr in range(S.n):
                    if best[r, sr] == INF:
                        continue
                    e = event(S, s, sl, sr)
                    if e is None:
                        continue
                    c = unit[e[0]] + fl * e[1] + best[l, sl] + best[r, sr]
                    if c < b:
                        b = c
                        a = []
                    if c == b and c < INF:
                        a.append((sl, sr))
            best[v, s] = b
            arg[v, s] = a

    def expand(v, s):
        if not O.children[v]:
            yield {v: s}
            return
        l, r = O.children[v]
        for sl, sr in arg[v, s]:
            for a in expand(l, sl):
                for b in expand(r, sr):
                    d = {v: s}
                    d.update(a)
                    d.update(b)
                    yield d

    m = min(best[O.root, s] for s in range(S.n))
    sols = []
    if m < INF:
        for s in range(S.n):
            if best[O.root, s] == m:
                sols.extend(expand(O.root, s))
    return m, sols


def lca_mapping(O, S, leafmap):
    m = dict(leafmap)
    for v in O.order_post():
        if O.children[v]:
            l, r = O.children[v]
            m[v] = S.lca(m[l], m[r])
    return m


def mapping_key(m):
    return tuple(sorted(m.items()))
