"""Reference models for the small utilities: topological orders by permutation filtering,
set partitions, labelled binary trees as nested tuples, rooted triples, run counting on masks."""
import itertools


def topo_orders(vertices, succ):
    """every ordering of `vertices` in which each vertex precedes all its successors"""
    vertices = list(vertices)
    if any(v in succ.get(v, ()) for v in vertices):
        return []
    out = []
    for p in itertools.permutations(vertices):
        pos = {v: i for i, v in enumerate(p)}
        if all(pos[a] < pos[b] for a in vertices for b in succ.get(a, ())):
            out.append(p)
    return out


def all_binary_trees(leaves):
    """every rooted binary tree on the labelled leaf set, as nested 2-tuples (unordered children
    are listed once: the subtree containing the first leaf comes first)"""
    leaves = list(leaves)
    if len(leaves) == 1:
        yield leaves[0]
        return
    first, rest = leaves[0], leaves[1:]
    for k in range(len(rest)):
        for comb in itertools.combinations(rest, k):
            A = [first] + list(comb)
            B = [x for x in rest if x not in comb]
            for a in all_binary_trees(A):
                for b in all_binary_trees(B):
                    yield (a, b)


def tree_leaves(t):
    if not isinstance(t, tuple):
        return [t]
    return [x for c in t for x in tree_leaves(c)]


def tree_clades(t):
    out = {frozenset(tree_leaves(t))}
    if isinstance(t, tuple):
        for c in t:
            out |= tree_clades(c)
    return frozenset(out)


def tree_newick(t):
    if not isinstance(t, tuple):
        return str(t)
    return "(" + ",".join(tree_newick(c) for c in t) + ")"


def displayed_triples(t):
    """set of (a, b, c) with a < b such that ab|c is displayed by the tree"""
    cl = [c for c in tree_clades(t)]
    leaves = tree_leaves(t)
    res = set()
    for a, b in itertools.combinations(sorted(leaves), 2):
        # smallest clade containing a and b
        ab = min((c for c in cl if a in c and b in c), key=len)
        for c in leaves:
            if c not in ab:
                res.add((a, b, c))
    return res


def clades_display_triple(clades, triple):
    a, b, c = triple
    return any(a in cl and b in cl and c not in cl for cl in clades)


def partitions_into_two(blocks):
    """every way of merging the given blocks into exactly two non-empty groups (unordered)"""
    blocks = list(blocks)
    if len(blocks) < 2:
        return []
    out = []
    first, rest = blocks[0], blocks[1:]
    for k in range(len(rest)):          # first group = first + k others; second non-empty
        for comb in itertools.combinations(range(len(rest)), k):
            g1 = [first] + [rest[i] for i in comb]
            g2 = [rest[i] for i in range(len(rest)) if i not in comb]
            out.append((g1, g2))
    return out


def lost_runs_mask(child, parent, count_ends, nbits):
    """-1 if child has a bit outside parent, else the number of maximal runs of parent elements
    missing from child (runs touching either end ignored unless count_ends)"""
    c = [child >> i & 1 for i in range(nbits)]
    p = [parent >> i & 1 for i in range(nbits)]
    if any(ci and not pi for ci, pi in zip(c, p)):
        return -1
    kept = [c[i] for i in range(nbits) if p[i]]
    runs = []
    cur = None
    for j, k in enumerate(kept):
        if not k:
            if cur is None:
                cur = [j, j]
            else:
                cur[1] = j
        elif cur is not None:
            runs.append(cur)
            cur = None
    if cur is not None:
        runs.append(cur)
    if not count_ends:
        runs = [r for r in runs if r[0] != 0 and r[1] != len(kept) - 1]
    return len(runs)
