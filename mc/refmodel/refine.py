"""Reference model: all binary refinements of a rooted tree (no superrec2/ete3 imports).

Trees are nested tuples whose leaves are arbitrary hashable labels."""
from .graphs import all_binary_trees
from .trees import T


def substitute(skeleton, mapping):
    if isinstance(skeleton, tuple):
        return tuple(substitute(c, mapping) for c in skeleton)
    return mapping[skeleton]


def refinements(tree):
    """every binary tree (nested 2-tuples) that contains every clade of `tree`, each once"""
    if not isinstance(tree, tuple):
        return [tree]
    kid_options = [refinements(c) for c in tree]
    out = []

    def rec(i, chosen):
        if i == len(kid_options):
            slots = list(range(len(chosen)))
            for skel in all_binary_trees(slots):
                out.append(substitute(skel, dict(zip(slots, chosen))))
            return
        for opt in kid_options[i]:
            rec(i + 1, chosen + [opt])

    rec(0, [])
    return out


def count_refinements(tree):
    """product over internal nodes of (2k-3)!!"""
    if not isinstance(tree, tuple):
        return 1
    k = len(tree)
    n = 1
    for x in range(2 * k - 3, 0, -2):
        n *= x
    for c in tree:
        n *= count_refinements(c)
    return n


def labelled_from_shape(shape):
    """shape (leaves None) -> nested tuple whose leaves are the pre-order node indices of T(shape)"""
    t = T(shape)

    def rec(v):
        if not t.children[v]:
            return v
        return tuple(rec(c) for c in t.children[v])

    return rec(t.root), t


def shape_of(nested):
    if not isinstance(nested, tuple):
        return None
    return tuple(shape_of(c) for c in nested)


def model_of(nested):
    """nested tuple with leaf labels -> (T, {T leaf index: label})"""
    t = T(shape_of(nested))
    labels = []

    def rec(x):
        if isinstance(x, tuple):
            for c in x:
                rec(c)
        else:
            labels.append(x)

    rec(nested)
    return t, dict(zip(t.leaves, labels))


def clades_of(nested):
    def rec(x):
        if not isinstance(x, tuple):
            return frozenset([x]), {frozenset([x])}
        allc = set()
        mine = frozenset()
        for c in x:
            cl, sub = rec(c)
            mine |= cl
            allc |= sub
        allc.add(mine)
        return mine, allc

    return frozenset(rec(nested)[1])
