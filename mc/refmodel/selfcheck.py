"""Cross-validation of the reference models against each other (model <-> model, DESIGN 5.1)."""
import itertools

from .trees import T, binary_shapes
from . import dtl


def run(max_obj=3, max_sp=3):
    costs_menu = [(0, 1, 1, 1), (1, 3, 5, 2), (2, 0, 0, 1), (0, 1, dtl.INF, 1)]
    for no in range(1, max_obj + 1):
        for osh in binary_shapes(no):
            O = T(osh)
            for ns in range(1, max_sp + 1):
                for ssh in binary_shapes(ns):
                    S = T(ssh)
                    for asg in itertools.product(S.leaves, repeat=no):
                        leafmap = dict(zip(O.leaves, asg))
                        for costs in costs_menu:
                            b, sols, _ = dtl.brute(O, S, leafmap, costs)
                            b2, sols2 = dtl.bellman(O, S, leafmap, costs)
                            if b != b2 or sorted(map(dtl.mapping_key, sols)) != sorted(map(dtl.mapping_key, sols2)):
                                return f"dtl brute vs bellman differ on {osh} {ssh} {asg} {costs}"
    try:
        from . import ordered, unordered  # noqa: F401
    except ImportError:
        return None
    msg = ordered.selfcheck() if hasattr(ordered, "selfcheck") else None
    if msg:
        return msg
    msg = unordered.selfcheck() if hasattr(unordered, "selfcheck") else None
    return msg
