"""Reference model of ordered super-reconciliation (no superrec2 imports).

Syntenies are tuples of distinct family names.  A labelling is a dict
object-node -> tuple.  Costs are (spe, dup, hgt, floss, sloss).
"""
import itertools

from .dtl import INF, event, valid_mappings


def is_subseq(c, p):
    it = iter(p)
    return all(x in it for x in c)


def lost_runs(child, parent, count_ends):
    """number of maximal runs of parent elements missing from child; runs touching
    either end of the parent are ignored unless count_ends"""
    cs = set(child)
    runs = []
    cur = None
    for i, x in enumerate(parent):
        if x not in cs:
            if cur is None:
                cur = [i, i]
            else:
                cur[1] = i
        elif cur is not None:
            runs.append(tuple(cur))
            cur = None
    if cur is not None:
        runs.append(tuple(cur))
    if not count_ends:
        runs = [r for r in runs if r[0] != 0 and r[1] != len(parent) - 1]
    return len(runs)


def label_cost(kind, side, p, l, r):
    """segmental losses charged at a node with synteny p and child syntenies l, r;
    None if a child is not a subsequence of p.  The partial copy (free end runs) is
    chosen optimally at a duplication and is the transferred child at a transfer."""
    if not is_subseq(l, p) or not is_subseq(r, p):
        return None
    if kind == "S":
        return lost_runs(l, p, True) + lost_runs(r, p, True)
    if kind == "D":
        return min(lost_runs(l, p, True) + lost_runs(r, p, False),
                   lost_runs(l, p, False) + lost_runs(r, p, True))
    if side == 0:  # left child conserved, right child transferred
        return lost_runs(l, p, True) + lost_runs(r, p, False)
    return lost_runs(l, p, False) + lost_runs(r, p, True)


def subseqs(p):
    for mask in range(1 << len(p)):
        yield tuple(x for i, x in enumerate(p) if mask >> i & 1)


def families(leafsyn):
    return sorted(set(x for s in leafsyn.values() for x in s))


def root_orders(leafsyn, prescribed=None):
    if prescribed is not None:
        return [tuple(prescribed)]
    fams = families(leafsyn)
    return [p for p in itertools.permutations(fams) if all(is_subseq(s, p) for s in leafsyn.values())]


def costs_of(O, S, leafmap, leafsyn, costs, m, lab):
    """(reconciliation cost, labelling cost) of a complete solution, or None if invalid.
    Validity: valid mapping, leaf syntenies as given, every child a subsequence of its parent."""
    spe, dup, hgt, fl, sl_ = costs
    unit = {"S": spe, "D": dup, "T": hgt}
    for v in O.leaves:
        if m.get(v) != leafmap[v] or tuple(lab.get(v, ())) != tuple(leafsyn[v]):
            return None
    rc = 0
    lc = 0
    for v in O.internal:
        l, r = O.children[v]
        e = event(S, m[v], m[l], m[r])
        if e is None:
            return None
        x = label_cost(e[0], e[2], tuple(lab[v]), tuple(lab[l]), tuple(lab[r]))
        if x is None:
            return None
        rc += unit[e[0]] + fl * e[1]
        lc += sl_ * x
    return rc, lc


def is_valid_solution(O, S, leafmap, leafsyn, m, lab, prescribed=None):
    """structural predicate of C04 (ordered model); returns None or a reason"""
    if set(m) != set(range(O.n)) or set(lab) != set(range(O.n)):
        return "mapping or labelling not total"
    for v in O.leaves:
        if m[v] != leafmap[v]:
            return f"leaf {v} moved to species {m[v]}"
        if tuple(lab[v]) != tuple(leafsyn[v]):
            return f"leaf {v} synteny {lab[v]} != input {leafsyn[v]}"
    fams = families(leafsyn) if prescribed is None else sorted(prescribed)
    if sorted(lab[O.root]) != fams or len(set(lab[O.root])) != len(lab[O.root]):
        return f"root synteny {lab[O.root]} does not hold every family once"
    if prescribed is not None and tuple(lab[O.root]) != tuple(prescribed):
        return f"root synteny {lab[O.root]} != prescribed {prescribed}"
    for v in O.internal:
        l, r = O.children[v]
        if event(S, m[v], m[l], m[r]) is None:
            return f"invalid event at node {v}"
        for c in (l, r):
            if not is_subseq(tuple(lab[c]), tuple(lab[v])):
                return f"synteny of {c} {lab[c]} is not a subsequence of its parent's {lab[v]}"
    return None


def solution_key(m, lab):
    return (tuple(sorted(m.items())), tuple(sorted((v, tuple(x)) for v, x in lab.items())))


def bellman(O, S, leafmap, leafsyn, costs, prescribed=None, fixed_map=None, want_sets=True):
    """(minimum, set of optimal solution keys) over root orders x mappings x labellings"""
    spe, dup, hgt, fl, sl_ = costs
    unit = {"S": spe, "D": dup, "T": hgt}
    best = INF
    sols = set()
    if len(O.leaves) == 1:
        # single-node object tree: the leaf is the root and must hold every family
        v = O.root
        for pi in root_orders(leafsyn, prescribed):
            if tuple(leafsyn[v]) == pi:
                return 0, {solution_key({v: leafmap[v]}, {v: pi})}
        return INF, set()
    for pi in root_orders(leafsyn, prescribed):
        allsub = list(subseqs(pi))
        tab = {}
        for v in O.order_post():
            if not O.children[v]:
                if not is_subseq(tuple(leafsyn[v]), pi):
                    tab[v] = {}
                else:
                    tab[v] = {(leafmap[v], tuple(leafsyn[v])): (0, [])}
                continue
            l, r = O.children[v]
            cand_syn = [pi] if v == O.root else allsub
            cand_sp = range(S.n) if fixed_map is None else [fixed_map[v]]
            out = {}
            for s in cand_sp:
                for (sl, ml), (cl, _) in tab[l].items():
                    for (sr, mr), (cr, _) in tab[r].items():
                        e = event(S, s, sl, sr)
                        if e is None:
                            continue
                        base = unit[e[0]] + fl * e[1] + cl + cr
                        if base == INF:
                            continue
                        for msyn in cand_syn:
                            x = label_cost(e[0], e[2], msyn, ml, mr)
                            if x is None:
                                continue
                            c = base + sl_ * x
                            cur = out.get((s, msyn))
                            if cur is None or c < cur[0]:
                                out[(s, msyn)] = (c, [((sl, ml), (sr, mr))])
                            elif c == cur[0]:
                                cur[1].append(((sl, ml), (sr, mr)))
            tab[v] = out

        def expand(v, st):
            if not O.children[v]:
                yield {v: st}
                return
            l, r = O.children[v]
            for ls, rs in tab[v][st][1]:
                for a in expand(l, ls):
                    for b in expand(r, rs):
                        d = {v: st}
                        d.update(a)
                        d.update(b)
                        yield d

        for st, (c, _) in tab[O.root].items():
            if c < best:
                best = c
                sols = set()
            if c == best and c < INF and want_sets:
                for d in expand(O.root, st):
                    sols.add(solution_key({v: x[0] for v, x in d.items()}, {v: x[1] for v, x in d.items()}))
    return best, sols


def brute(O, S, leafmap, leafsyn, costs, prescribed=None, fixed_map=None):
    """minimum and optimal set by plain enumeration of root orders x labellings x mappings"""
    best = INF
    sols = set()
    internal = O.internal
    maps = list(valid_mappings(O, S, leafmap, fixed_map))
    if len(O.leaves) == 1:
        return bellman(O, S, leafmap, leafsyn, costs, prescribed, fixed_map)
    for pi in root_orders(leafsyn, prescribed):
        nonroot = [v for v in internal if v != O.root]
        allsub = list(subseqs(pi))
        for labs in itertools.product(allsub, repeat=len(nonroot)):
            lab = {v: tuple(leafsyn[v]) for v in O.leaves}
            lab[O.root] = pi
            lab.update(zip(nonroot, labs))
            for m, _ in maps:
                rl = costs_of(O, S, leafmap, leafsyn, costs, m, lab)
                if rl is None:
                    continue
                c = rl[0] + rl[1]
                if c < best:
                    best = c
                    sols = set()
                if c == best and c < INF:
                    sols.add(solution_key(m, lab))
    return best, sols


def selfcheck():
    """brute force <-> Bellman on a tiny slice"""
    from .trees import T, binary_shapes
    menu = [(0, 1, 1, 1, 1), (1, 3, 5, 2, 2), (0, 1, 1, 1, 0), (0, 1, INF, 1, 1)]
    syn_menu = [("a",), ("a", "b"), ("b", "a"), ("b",), ("a", "b", "c"), ("a", "c")]
    n = 0
    for no in (1, 2, 3):
        for osh in binary_shapes(no):
            O = T(osh)
            for ssh in ((None), (None, None), ((None, None), None)):
                S = T(ssh)
                asgs = list(itertools.product(S.leaves, repeat=no))
                for ai, asg in enumerate(asgs):
                    leafmap = dict(zip(O.leaves, asg))
                    for si, syns in enumerate(itertools.product(syn_menu, repeat=no)):
                        if (ai + si) % 7:   # thin the tiny slice deterministically: this is a harness self-test
                            continue
                        leafsyn = dict(zip(O.leaves, syns))
                        costs = menu[(ai + si) % len(menu)]
                        a = brute(O, S, leafmap, leafsyn, costs)
                        b = bellman(O, S, leafmap, leafsyn, costs)
                        n += 1
                        if a != b:
                            return f"ordered brute vs bellman differ on {osh} {ssh} {asg} {syns} {costs}: {a[0]} vs {b[0]}"
    return None
