"""Reference model of a dynamic-programming entry: the optimum of all candidate
values offered so far and the set of tags of the candidates that achieve it."""

INF = float("inf")


class RefEntry:
    def __init__(self, merge, init=None):
        self.merge = merge  # "MIN" | "MAX"
        self.opt = INF if merge == "MIN" else -INF
        self.tags = frozenset()
        if init is not None:
            value, tags = init
            self.opt = value
            self.tags = frozenset(tags)

    def better(self, a, b):
        return a < b if self.merge == "MIN" else a > b

    def offer(self, value, tag):
        if self.better(value, self.opt):
            self.opt = value
            self.tags = frozenset([tag]) if tag is not None else frozenset()
        elif value == self.opt and tag is not None:
            self.tags = self.tags | {tag}

    def state(self):
        return (self.opt, self.tags)


def check_observation(merge, retention, opt, opt_tags, value, infos):
    """None if (value, infos) is an admissible observation for the reference
    state (opt, opt_tags), else a description of the discrepancy."""
    if value != opt:
        return f"value {value!r} != optimum {opt!r}"
    infos = set(infos)
    if retention == "ALL":
        if infos != set(opt_tags):
            return f"tags {sorted(map(str, infos))} != optimal tags {sorted(map(str, opt_tags))}"
    elif retention == "ANY":
        if opt_tags:
            if len(infos) != 1 or not infos <= set(opt_tags):
                return f"tags {sorted(map(str, infos))} not exactly one of {sorted(map(str, opt_tags))}"
        elif infos:
            return f"tags {sorted(map(str, infos))} but no optimal candidate is tagged"
    else:
        if infos:
            return f"tags {sorted(map(str, infos))} under retention NONE"
    return None
