"""Reference model of what a drawing must contain (no superrec2 imports)."""
from .dtl import event

DEFAULT_COLOUR = "000000"


def losses_by_species(O, S, m, evs):
    """{species: number of full losses located there}: for every vertical parent->child edge, one loss in each
    species skipped on the way (speciation: strictly between the two; duplication / conserved child of a transfer:
    the parent's species included)"""
    out = {}
    for v, e in evs.items():
        kids = O.children[v]
        if e[0] == "T":
            kids = (kids[e[2]],)
        for c in kids:
            x = S.parent[m[c]] if m[c] != m[v] else None
            if m[c] == m[v]:
                continue
            while x is not None and x != m[v]:
                out[x] = out.get(x, 0) + 1
                x = S.parent[x]
            if e[0] != "S":
                out[m[v]] = out.get(m[v], 0) + 1
    return out


def expected_colours(O, colours):
    """colour of every object node: nearest coloured ancestor-or-self, else the default"""
    out = {}
    for v in O.order_pre():
        if v in colours:
            out[v] = colours[v]
        elif O.parent[v] is not None:
            out[v] = out[O.parent[v]]
        else:
            out[v] = DEFAULT_COLOUR
    return out


def transferred_child(O, v, e):
    return O.children[v][1 - e[2]]
