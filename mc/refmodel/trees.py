"""Reference model: plain integer-labelled rooted trees.

Imports nothing from superrec2, ete3 or infinity.  Nodes are integers numbered
in pre-order; `children[v]` is a tuple, `parent[v]` an int or None.
A *shape* is a nested tuple whose leaves are `None`.
"""
import itertools


class T:
    def __init__(self, shape):
        self.shape = shape
        self.children = {}
        self.parent = {}
        self.leaves = []
        self.n = 0
        self.root = self._build(shape, None)
        self.depth = {}
        for v in self.order_pre():
            p = self.parent[v]
            self.depth[v] = 0 if p is None else self.depth[p] + 1
        self.internal = [v for v in self.order_pre() if self.children[v]]

    def _build(self, sh, par):
        v = self.n
        self.n += 1
        self.parent[v] = par
        if sh is None:
            self.children[v] = ()
            self.leaves.append(v)
        else:
            self.children[v] = ()
            self.children[v] = tuple(self._build(c, v) for c in sh)
        return v

    def order_pre(self):
        out = []
        stack = [self.root]
        while stack:
            v = stack.pop()
            out.append(v)
            stack.extend(reversed(self.children[v]))
        return out

    def order_post(self):
        out = []

        def rec(v):
            for c in self.children[v]:
                rec(c)
            out.append(v)

        rec(self.root)
        return out

    def anc(self, a, b):
        """a is an ancestor of b or equal to it (parent-chain walk)."""
        while b is not None:
            if a == b:
                return True
            b = self.parent[b]
        return False

    def sanc(self, a, b):
        return a != b and self.anc(a, b)

    def comparable(self, a, b):
        return self.anc(a, b) or self.anc(b, a)

    def lca(self, a, *rest):
        for b in rest:
            while not self.anc(a, b):
                a = self.parent[a]
        return a

    def dist(self, a, b):
        """number of edges on the path between a and b"""
        c = self.lca(a, b)
        return self.depth[a] + self.depth[b] - 2 * self.depth[c]

    def leaves_under(self, v):
        if not self.children[v]:
            return [v]
        return [x for c in self.children[v] for x in self.leaves_under(c)]

    def clade(self, v):
        return frozenset(self.leaves_under(v))

    def clades(self):
        return {self.clade(v) for v in range(self.n)}

    def subtree_nodes(self, v):
        out = [v]
        for c in self.children[v]:
            out.extend(self.subtree_nodes(c))
        return out

    def newick(self, names, feats=None):
        """Newick string (format 1/8 style: internal names kept).

        feats: optional {node: {key: value}} rendered as NHX comments."""

        def lab(v):
            s = names[v]
            if feats and feats.get(v):
                s += "[&&NHX:" + ":".join(f"{k}={x}" for k, x in sorted(feats[v].items())) + "]"
            return s

        def rec(v):
            if not self.children[v]:
                return lab(v)
            return "(" + ",".join(rec(c) for c in self.children[v]) + ")" + lab(v)

        return rec(self.root) + ";"

    def is_binary(self):
        return all(len(c) in (0, 2) for c in self.children.values())


def shape_leaves(shape):
    if shape is None:
        return 1
    return sum(shape_leaves(c) for c in shape)


def binary_shapes(n):
    """all plane binary tree shapes with n leaves (Catalan(n-1) of them)"""
    if n == 1:
        yield None
        return
    for k in range(1, n):
        for left in binary_shapes(k):
            for right in binary_shapes(n - k):
                yield (left, right)


def _compositions(n, parts):
    if parts == 1:
        yield (n,)
        return
    for first in range(1, n - parts + 2):
        for rest in _compositions(n - first, parts - 1):
            yield (first,) + rest


def schroeder_shapes(n):
    """all plane tree shapes with n leaves whose internal nodes have >= 2 children
    (little Schroeder numbers 1, 1, 3, 11, 45, 197)"""
    if n == 1:
        yield None
        return
    for k in range(2, n + 1):
        for comp in _compositions(n, k):
            for kids in itertools.product(*(list(schroeder_shapes(c)) for c in comp)):
                yield tuple(kids)


def plane_trees(nodes):
    """all rooted plane trees (any arity, unary nodes included) with `nodes` nodes,
    as shapes; used for the ancestry checks (C17)."""
    if nodes == 1:
        yield None
        return
    # root + an ordered forest with nodes-1 nodes
    for forest in _forests(nodes - 1):
        yield tuple(forest)


def _forests(nodes):
    if nodes == 0:
        yield ()
        return
    for first in range(1, nodes + 1):
        for t in plane_trees(first):
            for rest in _forests(nodes - first):
                yield (t,) + rest


def shape_str(shape):
    if shape is None:
        return "."
    return "(" + "".join(shape_str(c) for c in shape) + ")"


def shape_from_json(obj):
    """inverse of json round trip: lists -> tuples"""
    if obj is None:
        return None
    return tuple(shape_from_json(c) for c in obj)
