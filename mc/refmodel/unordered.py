"""Reference model of unordered super-reconciliation / SuperDTL (no superrec2 imports).

Syntenies are frozensets of family names.  Each family is gained once, at the
LCA (in the object tree) of the leaves carrying it.
"""
import itertools

from .dtl import INF, event, valid_mappings


def gain_nodes(O, leafsyn):
    g = {}
    fams = set(x for s in leafsyn.values() for x in s)
    for f in fams:
        carriers = [v for v in O.leaves if f in leafsyn[v]]
        g[f] = O.lca(*carriers)
    return g


def required(O, leafsyn):
    """R[v]: families that must be present at v (on a path from their gain node to a
    carrier leaf); gains[v]: families gained at v"""
    g = gain_nodes(O, leafsyn)
    R = {v: set() for v in range(O.n)}
    for f, gn in g.items():
        for lf in O.leaves:
            if f in leafsyn[lf]:
                v = lf
                while True:
                    R[v].add(f)
                    if v == gn:
                        break
                    v = O.parent[v]
    gains = {v: {f for f, gn in g.items() if gn == v} for v in range(O.n)}
    return R, gains


def label_cost(kind, side, p, l, r):
    """segmental losses charged at a node with content p and child contents l, r"""
    lc = 0 if p <= l else 1
    rc = 0 if p <= r else 1
    if kind == "S":
        return lc + rc
    if kind == "D":
        return min(lc, rc)
    return lc if side == 0 else rc


def labellings(O, leafsyn):
    """every labelling with R(v) <= syn(v) <= syn(parent) | gains(v), leaves fixed"""
    R, gains = required(O, leafsyn)
    pre = O.order_pre()

    def rec(i, lab):
        if i == len(pre):
            yield dict(lab)
            return
        v = pre[i]
        par = O.parent[v]
        if not O.children[v]:
            ok = par is None or set(leafsyn[v]) <= (lab[par] | gains[v])
            if ok:
                lab[v] = frozenset(leafsyn[v])
                yield from rec(i + 1, lab)
                del lab[v]
            return
        allowed = (lab[par] if par is not None else frozenset()) | gains[v]
        opt = sorted(allowed - R[v])
        for k in range(len(opt) + 1):
            for extra in itertools.combinations(opt, k):
                lab[v] = frozenset(R[v] | set(extra))
                yield from rec(i + 1, lab)
                del lab[v]

    yield from rec(0, {})


def is_canonical(O, leafsyn, lab, Rg=None):
    """each internal node holds either its required families or its parent's families plus its gains"""
    R, gains = Rg or required(O, leafsyn)
    for v in O.internal:
        par = O.parent[v]
        inh = (frozenset(lab[par]) if par is not None else frozenset()) | gains[v]
        if frozenset(lab[v]) != frozenset(R[v]) and frozenset(lab[v]) != frozenset(inh):
            return False
    return True


def has_choice(O, leafsyn):
    """some internal node has more than one admissible content in some labelling"""
    R, gains = required(O, leafsyn)
    # allowed at v is at most (union of gains on the path from the root) ; a choice exists iff
    # that bound differs from R[v] for some internal node
    for v in O.internal:
        acc = set()
        x = v
        while x is not None:
            acc |= gains[x]
            x = O.parent[x]
        if acc - R[v]:
            return True
    return False


def costs_of(O, S, leafmap, leafsyn, costs, m, lab):
    """(reconciliation cost, labelling cost) or None if the mapping is invalid"""
    spe, dup, hgt, fl, sl_ = costs
    unit = {"S": spe, "D": dup, "T": hgt}
    for v in O.leaves:
        if m.get(v) != leafmap[v]:
            return None
    rc = 0
    lc = 0
    for v in O.internal:
        l, r = O.children[v]
        e = event(S, m[v], m[l], m[r])
        if e is None:
            return None
        rc += unit[e[0]] + fl * e[1]
        lc += sl_ * label_cost(e[0], e[2], frozenset(lab[v]), frozenset(lab[l]), frozenset(lab[r]))
    return rc, lc


def is_valid_solution(O, S, leafmap, leafsyn, m, lab):
    """structural predicate of C04 (unordered model); returns None or a reason"""
    if set(m) != set(range(O.n)) or set(lab) != set(range(O.n)):
        return "mapping or labelling not total"
    g = gain_nodes(O, leafsyn)
    for v in O.leaves:
        if m[v] != leafmap[v]:
            return f"leaf {v} moved to species {m[v]}"
        if frozenset(lab[v]) != frozenset(leafsyn[v]):
            return f"leaf {v} content {sorted(lab[v])} != input {sorted(leafsyn[v])}"
    for v in O.internal:
        l, r = O.children[v]
        if event(S, m[v], m[l], m[r]) is None:
            return f"invalid event at node {v}"
    for v in range(O.n):
        for f in lab[v]:
            if f not in g:
                return f"unknown family {f} at node {v}"
            if not O.anc(g[f], v):
                return f"family {f} at node {v} outside the subtree of its gain node {g[f]}"
            if v != g[f] and f not in lab[O.parent[v]]:
                return f"family {f} regained at node {v} (parent lacks it)"
    return None


def solution_key(m, lab):
    return (tuple(sorted(m.items())), tuple(sorted((v, tuple(sorted(x))) for v, x in lab.items())))


def brute(O, S, leafmap, leafsyn, costs, fixed_map=None, canonical_only=False):
    """(minimum over all labellings and mappings, set of optimal solution keys)"""
    spe, dup, hgt, fl, sl_ = costs
    unit = {"S": spe, "D": dup, "T": hgt}
    Rg = required(O, leafsyn)
    labs = list(labellings(O, leafsyn))
    canon = [is_canonical(O, leafsyn, lab, Rg) for lab in labs]
    best = INF
    sols = []
    for m, evs in valid_mappings(O, S, leafmap, fixed_map):
        base = 0
        for e in evs.values():
            base += unit[e[0]] + fl * e[1]
        if base == INF:
            continue
        for lab, is_c in zip(labs, canon):
            c = base
            for v, e in evs.items():
                l, r = O.children[v]
                c += sl_ * label_cost(e[0], e[2], lab[v], lab[l], lab[r])
            if c < best:
                best = c
                sols = []
            if c == best:
                sols.append((m, lab, is_c))
    keys = {solution_key(m, lab) for m, lab, is_c in sols if is_c or not canonical_only}
    return best, keys


def bellman(O, S, leafmap, leafsyn, costs, fixed_map=None, canonical_only=False):
    """DP over states (species, content) with every admissible content; returns (min, optimal keys)"""
    spe, dup, hgt, fl, sl_ = costs
    unit = {"S": spe, "D": dup, "T": hgt}
    R, gains = required(O, leafsyn)
    # admissible contents of v: R[v] | any subset of (gains on the root path) - R[v]; the
    # parent/child constraint  content(c) <= content(v) | gains(c)  is checked on transitions
    acc = {}
    for v in O.order_pre():
        par = O.parent[v]
        acc[v] = (acc[par] if par is not None else frozenset()) | gains[v]
    contents = {}
    for v in range(O.n):
        if not O.children[v]:
            contents[v] = [frozenset(leafsyn[v])]
        else:
            opt = sorted(acc[v] - R[v])
            contents[v] = [frozenset(R[v] | set(x)) for k in range(len(opt) + 1) for x in itertools.combinations(opt, k)]
    tab = {}
    for v in O.order_post():
        if not O.children[v]:
            tab[v] = {(leafmap[v], frozenset(leafsyn[v])): (0, [])}
            continue
        l, r = O.children[v]
        cand_sp = range(S.n) if fixed_map is None else [fixed_map[v]]
        out = {}
        for s in cand_sp:
            for (sl, ml), (cl, _) in tab[l].items():
                for (sr, mr), (cr, _) in tab[r].items():
                    e = event(S, s, sl, sr)
                    if e is None:
                        continue
                    base = unit[e[0]] + fl * e[1] + cl + cr
                    if base == INF:
                        continue
                    for p in contents[v]:
                        if not (ml <= p | gains[l]) or not (mr <= p | gains[r]):
                            continue
                        c = base + sl_ * label_cost(e[0], e[2], p, ml, mr)
                        cur = out.get((s, p))
                        if cur is None or c < cur[0]:
                            out[(s, p)] = (c, [((sl, ml), (sr, mr))])
                        elif c == cur[0]:
                            cur[1].append(((sl, ml), (sr, mr)))
        tab[v] = out

    def expand(v, st):
        if not O.children[v]:
            yield {v: st}
            return
        l, r = O.children[v]
        for ls, rs in tab[v][st][1]:
            for a in expand(l, ls):
                for b in expand(r, rs):
                    d = {v: st}
                    d.update(a)
                    d.update(b)
                    yield d

    best = INF
    keys = set()
    rootgain = gains[O.root]
    for st, (c, _) in tab[O.root].items():
        if not st[1] <= rootgain:
            continue  # the root can only hold families gained at the root
        if c < best:
            best = c
            keys = set()
        if c == best and c < INF:
            for d in expand(O.root, st):
                m = {v: x[0] for v, x in d.items()}
                lab = {v: x[1] for v, x in d.items()}
                if canonical_only and not is_canonical(O, leafsyn, lab, (R, gains)):
                    continue
                keys.add(solution_key(m, lab))
    return best, keys


def selfcheck():
    from .trees import T, binary_shapes
    menu = [(0, 1, 1, 1, 1), (1, 3, 5, 2, 2), (0, 1, 1, 1, 0), (0, 1, INF, 1, 1), (0, 0, 1, 1, 1)]
    syn_menu = [("a",), ("a", "b"), ("b",), ("a", "b", "c"), ("a", "c"), ("c",)]
    for no in (1, 2, 3, 4):
        for osh in binary_shapes(no):
            O = T(osh)
            for ssh in ((None), (None, None), ((None, None), None)):
                S = T(ssh)
                for ai, asg in enumerate(itertools.product(S.leaves, repeat=no)):
                    leafmap = dict(zip(O.leaves, asg))
                    for si, syns in enumerate(itertools.product(syn_menu, repeat=no)):
                        if (ai * 5 + si) % (11 if no < 4 else 211):
                            continue
                        leafsyn = dict(zip(O.leaves, syns))
                        costs = menu[(ai + si) % len(menu)]
                        for canonical_only in (False, True):
                            a = brute(O, S, leafmap, leafsyn, costs, canonical_only=canonical_only)
                            b = bellman(O, S, leafmap, leafsyn, costs, canonical_only=canonical_only)
                            if a != b:
                                return (f"unordered brute vs bellman differ on {osh} {ssh} {asg} {syns} {costs} "
                                        f"canonical={canonical_only}: {a[0]} vs {b[0]}, {len(a[1])} vs {len(b[1])} sols")
    return None
