"""Deterministic stand-in for the TeX measurer (superrec2.utils.tex.measure).

The render layer reaches the measurer through the module attribute `tex.measure`, so it is
replaced from outside; nothing in /repo is changed.  A stub is a pure function of
(salt, box text) -> positive (width, height, depth) and records how it was called."""
import zlib

from . import adapters  # noqa: F401
from superrec2.utils import tex

_ORIGINAL = tex.measure


class Stub:
    def __init__(self, kind="hash", salt=0, swap=False):
        self.kind, self.salt, self.swap = kind, salt, swap
        self.calls = []

    def size(self, text):
        h = zlib.crc32((str(self.salt) + "|" + text).encode())
        if self.kind == "unit":
            w, ht, d = 1.0, 1.0, 0.0
        elif self.kind == "big":
            w, ht, d = 100.0, 100.0, 0.0
        elif self.kind == "tall":
            w, ht, d = 1.0 + h % 3, 40.0 + (h >> 8) % 60, float((h >> 16) % 5)
        elif self.kind == "wide":
            w, ht, d = 40.0 + h % 60, 1.0 + (h >> 8) % 3, 0.0
        else:
            w, ht, d = 1.0 + h % 100, 1.0 + (h >> 8) % 97, float((h >> 16) % 4)
        if self.swap:
            return tex.MeasureBox(ht + d, w, 0.0)
        return tex.MeasureBox(w, ht, d)

    def __call__(self, texts, preamble=""):
        texts = list(texts)
        self.calls.append(texts)
        return [self.size(t) for t in texts]


def install(stub):
    tex.measure = stub
    return stub


def restore():
    tex.measure = _ORIGINAL
