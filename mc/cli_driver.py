"""In-process driver of the superrec2 command-line tool (and a subprocess twin used to
validate that the in-process observations are those of the real command)."""
import io
import os
import subprocess
import sys

from . import adapters  # noqa: F401

SRC = os.environ.get("VERIF_REPO_SRC", "/repo/src")


class _Out(io.StringIO):
    """text sink that also offers .buffer-less bytes writing for `draw` (mode 'wb' on '-')"""


class _BytesOut(io.BytesIO):
    name = "-"


class _StdoutShim(io.StringIO):
    """stands in for sys.stdout: argparse.FileType('wb')('-') returns sys.stdout.buffer"""

    def __init__(self):
        super().__init__()
        self.buffer = _BytesOut()

    name = "-"


class _StdinShim(io.StringIO):
    name = "-"


def run_cli(argv, stdin_text=""):
    """-> (status, stdout text, stderr text, stdout bytes written through .buffer)"""
    from superrec2.cli import __main__ as cli_main
    old = (sys.argv, sys.stdin, sys.stdout, sys.stderr)
    out, err = _StdoutShim(), io.StringIO()
    sys.argv = ["superrec2"] + list(argv)
    sys.stdin = _StdinShim(stdin_text)
    sys.stdout = out
    sys.stderr = err
    status = None
    try:
        try:
            status = cli_main.run()
        except SystemExit as exc:
            status = exc.code
    finally:
        sys.argv, sys.stdin, sys.stdout, sys.stderr = old
    if status is None:
        status = 0
    return status, out.getvalue(), err.getvalue(), out.buffer.getvalue()


def run_cli_subprocess(argv, stdin_text=""):
    env = dict(os.environ)
    env["PYTHONPATH"] = SRC
    env["TQDM_DISABLE"] = "1"
    p = subprocess.run([sys.executable, "-m", "superrec2.cli"] + list(argv), input=stdin_text.encode(),
                       stdout=subprocess.PIPE, stderr=subprocess.PIPE, env=env, timeout=300)
    return p.returncode, p.stdout.decode(), p.stderr.decode()


def cost_args(costs):
    """(spe, dup, hgt, floss, sloss) -> command-line options (the documented spelling of infinity
    is a Python expression evaluated by the tool)"""
    names = ("spe", "dup", "hgt", "floss", "sloss")
    out = []
    for n, c in zip(names, costs):
        out += [f"--cost-{n}", "float('inf')" if c == float("inf") else str(c)]
    return out


def parse_min_cost(stderr_text):
    for line in stderr_text.splitlines():
        if line.startswith("Minimum cost:"):
            return line.split(":", 1)[1].strip()
    return None
