"""Check runner: tiers, sharding, evidence, known findings, exit codes.

Usage (through /verif/check):
    check <Cxx> [--tier quick|thorough] [--replay FILE] [--procs N]

Exit status: 0 property held on everything explored (KNOWN-FINDING lines allowed),
1 at least one VIOLATION line, 2 internal error of the machinery.
"""
import argparse
import hashlib
import importlib
import json
import multiprocessing as mp
import os
import sys
import time
import traceback

VERIF = os.path.dirname(os.path.dirname(os.path.abspath(__file__)))
EVIDENCE_DIR = os.path.join(VERIF, "evidence")
REPLAY_DIR = os.path.join(VERIF, "replays")
FINDINGS_FILE = os.path.join(VERIF, "known_findings.json")
if os.environ.get("VERIF_REPO_SRC"):
    # mutant / scratch-tree runs never touch the committed evidence or replay directories
    _scr = os.environ.get("VERIF_SCRATCH_OUT", "/tmp/verif-scratch-out")
    EVIDENCE_DIR = os.path.join(_scr, "evidence")
    REPLAY_DIR = os.path.join(_scr, "replays")

MAX_REPLAY_FILES_PER_SUBCHECK = 3
MAX_REPLAY_FILES = 12
MAX_VIOLATIONS_PER_SHARD = 8


class InternalError(Exception):
    """Error of the verification machinery itself (never reported as a violation)."""


def canon(obj):
    return json.dumps(obj, sort_keys=True, separators=(",", ":"), default=str)


def case_sha(case):
    return hashlib.sha1(canon(case).encode()).hexdigest()[:16]


_MOD = None


def _load(prop_id):
    return importlib.import_module(f"mc.props.{prop_id.lower()}")


def _worker_init(prop_id):
    global _MOD
    os.environ.setdefault("TQDM_DISABLE", "1")
    _MOD = _load(prop_id)
    if hasattr(_MOD, "worker_init"):
        _MOD.worker_init()


SRC_UNDER_TEST = os.path.realpath(os.environ.get("VERIF_REPO_SRC", "/repo/src"))


def raised_by_library(exc):
    """True iff the exception escaped from the code under test: walking the traceback from the raise point outwards,
    a frame of the source tree under test is met before any frame of the harness (frames of third-party packages the
    library calls into are skipped).  Every case the checks build is in-domain, so such an exception is a violation of
    the property being checked, not an error of the machinery (DESIGN section 7)."""
    for fr in reversed(traceback.extract_tb(exc.__traceback__)):
        f = os.path.realpath(fr.filename)
        if f.startswith(SRC_UNDER_TEST + os.sep):
            return True
        if f.startswith(VERIF + os.sep):
            return False
    return False


def shard_exception_violation(prop_id, shard, tier, seed, exc):
    import base64
    import pickle
    return {"property": prop_id, "subcheck": "exception",
            "case": {"shard_exception": True, "slice": shard.get("slice"), "tier": tier, "seed": seed,
                     "shard_pickle_b64": base64.b64encode(pickle.dumps(shard)).decode()},
            "detail": f"{type(exc).__name__}: {exc} escaped from the code under test while exploring shard "
                      f"{str({k: v for k, v in shard.items() if k != 'menu'})[:300]}\n" + traceback.format_exc(limit=-6)}


def pack(obj):
    import base64
    import pickle
    return base64.b64encode(pickle.dumps(obj)).decode()


def _case_key(case):
    return canon({k: v for k, v in (case or {}).items() if k not in ("shard_replay", "session_shard")})


def rerun_shard_for(mod, shard, tier, seed, viol):
    """run one shard again in this process and look for the same (subcheck, case) among its violations"""
    try:
        res = mod.run_shard(shard, tier, seed)
    except Exception as exc:
        if raised_by_library(exc):
            return {"violated": True, "detail": f"exception: {type(exc).__name__}: {exc} escaped from the code under test"}
        raise InternalError("shard re-run crashed:\n" + traceback.format_exc())
    want = _case_key(viol.get("case"))
    same_sub = None
    for x in res.get("violations", []):
        if x.get("subcheck") == viol.get("subcheck") and _case_key(x.get("case")) == want:
            return {"violated": True, "detail": "reproduced by re-running the exploration history (shard) that found it; not "
                                                "reproducible from the case alone - state carried between calls: "
                                                + str(x.get("detail"))}
        if same_sub is None and x.get("subcheck") == viol.get("subcheck"):
            same_sub = x
    if same_sub is not None:
        # this process has its own past (replays, earlier re-runs), so a state-dependent failure may surface at another case of
        # the same history: the same subcheck failing again in the re-run history is still a failure of the real code
        return {"violated": True, "detail": "re-running the exploration history (shard) that found it fails the same subcheck again, at "
                                            "another case of that history (the failure depends on what the process did before): "
                                            + str(same_sub.get("detail"))}
    return {"violated": False, "detail": None}


def replay_shard_history(mod, viol):
    import base64
    import pickle
    sr = viol["case"]["shard_replay"]
    shard = pickle.loads(base64.b64decode(sr["shard_pickle_b64"]))
    return rerun_shard_for(mod, shard, sr.get("tier", "quick"), sr.get("seed", 0), viol)


def replay_shard_exception(mod, viol):
    import base64
    import pickle
    c = viol["case"]
    shard = pickle.loads(base64.b64decode(c["shard_pickle_b64"]))
    try:
        mod.run_shard(shard, c.get("tier", "quick"), c.get("seed", 0))
    except Exception as exc:
        if raised_by_library(exc):
            return {"violated": True, "detail": f"exception: {type(exc).__name__}: {exc} escaped from the code under test"}
        raise
    return {"violated": False, "detail": None}


def _worker_run(arg):
    idx, shard, tier, seed = arg
    try:
        res = _MOD.run_shard(shard, tier, seed)
        res["_idx"] = idx
        return res
    except Exception as exc:
        if raised_by_library(exc):
            v = shard_exception_violation(_MOD.__name__.rsplit(".", 1)[1].upper(), shard, tier, seed, exc)
            return {"_idx": idx, "_aborted": True, "evaluations": 0, "nontrivial": 0, "samples": [], "violations": [v],
                    "violations_total": 1}
        # harness failure -> internal error
        return {"_idx": idx, "_internal_error": traceback.format_exc(), "shard": shard}


def load_findings(prop_id):
    if not os.path.exists(FINDINGS_FILE):
        return []
    with open(FINDINGS_FILE) as fh:
        data = json.load(fh)
    return [f for f in data.get("entries", []) if f.get("property") == prop_id]


def write_replay(prop_id, viol):
    d = os.path.join(REPLAY_DIR, prop_id)
    os.makedirs(d, exist_ok=True)
    path = os.path.join(d, case_sha(viol.get("case", viol)) + ".json")
    with open(path, "w") as fh:
        json.dump(viol, fh, indent=1, sort_keys=True, default=str)
        fh.write("\n")
    return path


def basic_evidence_check(ev):
    """Minimal structural validation (full JSON-schema validation is done by
    selftest with python3-vt's jsonschema)."""
    for k in ("property_id", "tier", "seed", "level", "coverage", "wall_s"):
        if k not in ev:
            raise InternalError(f"evidence lacks {k}")
    cov = ev["coverage"]
    if ev["level"] in ("exploration", "fault_enumeration"):
        for k in ("evaluations", "distinct_nontrivial", "rule", "samples"):
            if k not in cov:
                raise InternalError(f"coverage lacks {k}")
    if ev["level"] == "model_checking":
        for k in ("states", "transitions", "traces_validated_against_impl", "samples"):
            if k not in cov:
                raise InternalError(f"coverage lacks {k}")
    if not cov.get("samples"):
        raise InternalError("no samples")


def confirm(mod, viol):
    """Re-execute a reported case on freshly built objects; True if it fails again."""
    try:
        if (viol.get("case") or {}).get("shard_exception"):
            return replay_shard_exception(mod, viol)
        if (viol.get("case") or {}).get("shard_replay"):
            return replay_shard_history(mod, viol)
        res = mod.replay(viol)
    except Exception as exc:
        if raised_by_library(exc):
            return {"violated": True, "detail": f"exception: {type(exc).__name__}: {exc} escaped from the code under test\n"
                                                + traceback.format_exc(limit=-5)}
        raise InternalError("replay crashed:\n" + traceback.format_exc())
    return res


def run(prop_id, tier, seed, procs, budget=None, only_slice=None):
    t0 = time.time()
    mod = _load(prop_id)
    level = mod.LEVEL
    plan = mod.plan(tier, seed)
    if only_slice:
        # development aid (never used by MANIFEST commands): explore only the slices whose name contains the filter;
        # such a run writes its evidence to the scratch directory, not to /verif/evidence
        plan = [sh for sh in plan if only_slice in sh["slice"]]
        if not plan:
            raise InternalError(f"no slice of {prop_id}/{tier} matches {only_slice!r}")
        global EVIDENCE_DIR
        if not os.environ.get("VERIF_REPO_SRC"):
            EVIDENCE_DIR = os.path.join(os.environ.get("VERIF_SCRATCH_OUT", "/tmp/verif-scratch-out"), "evidence")
    # plan: list of shard dicts, each with key "slice"
    # operation histories ("session" shards) are long and serial: they are handed out first so that they overlap with the
    # many short shards instead of trailing them; the seed only rotates the order within the two groups
    first = [i for i, sh in enumerate(plan) if sh.get("session")]
    rest = [i for i, sh in enumerate(plan) if not sh.get("session")]
    if seed:
        k1, k2 = seed % max(1, len(first)), seed % max(1, len(rest))
        first, rest = first[k1:] + first[:k1], rest[k2:] + rest[:k2]
    order = first + rest
    if budget is None:
        budget = getattr(mod, "BUDGET", {}).get(tier, 3600 if tier == "thorough" else 600)
    deadline = t0 + budget

    slices = {}
    for sh in plan:
        s = slices.setdefault(sh["slice"], {"shards": 0, "done": 0, "inputs": 0})
        s["shards"] += 1

    totals = {"evaluations": 0, "nontrivial": 0, "states": 0, "transitions": 0, "traces": 0}
    counters = {}
    samples = {}
    viols = []
    viol_total = 0
    unrepro = []
    capped = False
    internal = None

    tasks = [(i, plan[i], tier, seed) for i in order]
    last_progress = time.time()
    nproc = max(1, min(procs, len(tasks)))
    ctx = mp.get_context("fork")
    pool = ctx.Pool(nproc, initializer=_worker_init, initargs=(prop_id,))
    try:
        it = pool.imap_unordered(_worker_run, tasks, chunksize=1)
        for _ in range(len(tasks)):
            remaining = deadline - time.time()
            if remaining <= 0:
                capped = True
                break
            try:
                res = it.next(timeout=remaining)
            except mp.TimeoutError:
                capped = True
                break
            if "_internal_error" in res:
                internal = res
                break
            sh = plan[res["_idx"]]
            s = slices[sh["slice"]]
            if not res.get("_aborted"):
                s["done"] += 1
            ndone = sum(x["done"] for x in slices.values())
            if time.time() - last_progress > 60:
                last_progress = time.time()
                sys.stderr.write(f"[{prop_id} {tier}] {ndone}/{len(tasks)} shards, {int(time.time() - t0)}s, "
                                 f"raw violations so far {viol_total}\n")
                sys.stderr.flush()
            s["inputs"] += res.get("inputs", res.get("evaluations", 0))
            for k in totals:
                totals[k] += res.get(k, 0)
            for k, v in res.get("counters", {}).items():
                counters[k] = counters.get(k, 0) + v
            lst = samples.setdefault(sh["slice"], [])
            for smp in res.get("samples", []):
                if len(lst) < 3:
                    lst.append(smp)
            viol_total += res.get("violations_total", len(res.get("violations", [])))
            for v in res.get("violations", []):
                v["_shard_idx"] = res["_idx"]
            viols.extend(res.get("violations", []))
    finally:
        pool.terminate()
        pool.join()

    if internal is not None:
        sys.stderr.write("INTERNAL ERROR in shard %r\n%s\n" % (internal.get("shard"), internal["_internal_error"]))
        return 2

    # ---- known findings --------------------------------------------------
    findings = load_findings(prop_id)
    finding_cases = {canon(f["case"]): f for f in findings if f.get("kind") == "finding" and "case" in f}
    known_lines = []
    confirmed = []
    shard_reruns = 0
    seen = set()
    for v in viols:
        key = canon(v.get("case"))
        if key in seen:
            continue
        seen.add(key)
        if key in finding_cases:
            continue  # reported below through the explicit replay of the finding
        if len(confirmed) >= 40:
            continue  # enough confirmed counter-examples; the raw total is reported separately
        shard_idx = v.pop("_shard_idx", None)
        try:
            again = confirm(mod, v)
            if not again.get("violated") and shard_idx is not None and shard_reruns < 4:
                # not reproducible from the case alone: the failure may depend on what the same process did before
                # (state carried between calls).  Re-run the whole shard that found it; if the same case fails again the
                # violation is real and its replay artefact is the shard itself.
                shard_reruns += 1
                again = rerun_shard_for(mod, plan[shard_idx], tier, seed, v)
                if again.get("violated"):
                    v = dict(v)
                    v["case"] = dict(v.get("case") or {})
                    v["case"]["shard_replay"] = {"tier": tier, "seed": seed, "shard_pickle_b64": pack(plan[shard_idx])}
        except InternalError as exc:
            sys.stderr.write(str(exc) + "\n")
            return 2
        if again.get("violated"):
            v = dict(v)
            v["confirmed_detail"] = again.get("detail")
            confirmed.append(v)
        else:
            unrepro.append(v)

    fixed_failed = []
    for f in findings:
        if "case" not in f:
            continue
        try:
            res = confirm(mod, {"property": prop_id, "subcheck": f.get("subcheck"), "case": f["case"]})
        except Exception:
            sys.stderr.write("replay of finding %s crashed:\n%s\n" % (f.get("id"), traceback.format_exc()))
            return 2
        if f.get("kind") == "finding":
            if res.get("violated"):
                known_lines.append(f"KNOWN-FINDING: property={prop_id} {f.get('id')} {f.get('what')}")
            else:
                known_lines.append(f"NOTE: finding {f.get('id')} listed for {prop_id} did not reproduce on this tree")
        elif f.get("kind") == "fixed":
            totals["evaluations"] += 1
            if res.get("violated"):
                fixed_failed.append({"property": prop_id, "subcheck": f.get("subcheck"), "case": f["case"],
                                     "detail": res.get("detail"), "regression_of": f.get("id")})
    confirmed.extend(fixed_failed)

    # ---- evidence --------------------------------------------------------
    exhaustive = (not capped) and all(s["done"] == s["shards"] for s in slices.values())
    sample_list = []
    for name, lst in samples.items():
        for smp in lst:
            sample_list.append({"slice": name, "case": smp})
    if hasattr(mod, "MAX_SAMPLES"):
        sample_list = sample_list[: mod.MAX_SAMPLES]
    else:
        sample_list = sample_list[:24]
    cov = {
        "evaluations": totals["evaluations"],
        "distinct_nontrivial": totals["nontrivial"],
        "rule": mod.RULE,
        "samples": sample_list,
        "exhaustive": exhaustive,
        "slices": {k: {"shards": v["shards"], "shards_completed": v["done"], "inputs": v["inputs"],
                       "completed": v["done"] == v["shards"]} for k, v in slices.items()},
        "counters": counters,
        "capped": capped,
        "budget_s": budget,
        "unreproduced": len(unrepro),
        "known_findings_listed": [f.get("id") for f in findings],
    }
    if level == "model_checking" or totals["states"]:
        cov["states"] = totals["states"]
        cov["transitions"] = totals["transitions"]
        cov["traces_validated_against_impl"] = totals["traces"]
    ev = {
        "property_id": prop_id,
        "tier": tier,
        "seed": seed,
        "level": level,
        "coverage": cov,
        "assumptions": list(getattr(mod, "ASSUMPTIONS", [])),
        "wall_s": round(time.time() - t0, 2),
        "violations": len(confirmed),
        "source_under_test": os.environ.get("VERIF_REPO_SRC", "/repo/src"),
    }
    try:
        basic_evidence_check(ev)
    except InternalError as exc:
        sys.stderr.write("INTERNAL ERROR: %s\n" % exc)
        return 2
    os.makedirs(EVIDENCE_DIR, exist_ok=True)
    tmp = os.path.join(EVIDENCE_DIR, f".{prop_id}.json.tmp")
    with open(tmp, "w") as fh:
        json.dump(ev, fh, indent=1, sort_keys=True, default=str)
        fh.write("\n")
    os.replace(tmp, os.path.join(EVIDENCE_DIR, f"{prop_id}.json"))

    # ---- report ----------------------------------------------------------
    for line in known_lines:
        print(line)
    print(f"{prop_id} tier={tier} seed={seed} evaluations={totals['evaluations']} nontrivial={totals['nontrivial']}"
          + (f" states={totals['states']} transitions={totals['transitions']} traces={totals['traces']}" if totals["states"] else "")
          + f" exhaustive={exhaustive} capped={capped} violations={len(confirmed)} (raw {viol_total})"
          + f" unreproduced={len(unrepro)} wall={ev['wall_s']}s")
    for name, s in slices.items():
        print(f"  slice {name}: shards {s['done']}/{s['shards']} inputs {s['inputs']}")
    if counters:
        print("  counters: " + ", ".join(f"{k}={v}" for k, v in sorted(counters.items())))
    if confirmed:
        tally = {}
        for v in confirmed:
            k = (v.get("subcheck", ""), str((v.get("case") or {}).get("algorithm", "")))
            tally[k] = tally.get(k, 0) + 1
        print("  confirmed violations by (subcheck, algorithm): " + ", ".join(f"{k[0]}/{k[1]}={n}" for k, n in sorted(tally.items())))
        written = 0
        per = {}
        for v in confirmed:
            sc = v.get("subcheck", "")
            if per.get(sc, 0) >= MAX_REPLAY_FILES_PER_SUBCHECK or written >= MAX_REPLAY_FILES:
                continue
            per[sc] = per.get(sc, 0) + 1
            written += 1
            path = write_replay(prop_id, v)
            print(f"VIOLATION property={prop_id} replay={path}")
            print(f"  subcheck={sc} detail={str(v.get('confirmed_detail') or v.get('detail'))[:300]}")
        return 1
    return 0


def do_replay(prop_id, path):
    mod = _load(prop_id)
    if hasattr(mod, "worker_init"):
        mod.worker_init()
    with open(path) as fh:
        viol = json.load(fh)
    res = confirm(mod, viol)
    if res.get("violated"):
        print(f"VIOLATION property={prop_id} replay={path}")
        print("  detail=" + str(res.get("detail"))[:2000])
        return 1
    print(f"replay of {path}: property {prop_id} holds on this case")
    return 0


def main(argv=None):
    ap = argparse.ArgumentParser()
    ap.add_argument("prop")
    ap.add_argument("--tier", default=os.environ.get("VERIF_TIER") or "quick", choices=("quick", "thorough"))
    ap.add_argument("--replay")
    ap.add_argument("--procs", type=int, default=int(os.environ.get("VERIF_PROCS", "16")))
    ap.add_argument("--budget", type=float, default=None)
    ap.add_argument("--slice", default=None, help="development aid: only slices whose name contains this string")
    args = ap.parse_args(argv)
    prop_id = args.prop.upper()
    try:
        seed = int(os.environ.get("VERIF_SEED", "0") or 0)
    except ValueError:
        seed = 0
    try:
        if args.replay:
            return do_replay(prop_id, args.replay)
        return run(prop_id, args.tier, seed, args.procs, args.budget, args.slice)
    except InternalError as exc:
        sys.stderr.write("INTERNAL ERROR: %s\n" % exc)
        return 2
    except Exception:
        sys.stderr.write("INTERNAL ERROR:\n" + traceback.format_exc())
        return 2


if __name__ == "__main__":
    sys.exit(main())
