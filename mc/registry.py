"""Per-property metadata used to generate MANIFEST.json (tools/gen_manifest.py).

A property appears in CLAIMED once its check module exists and is silent on the
unchanged tree; everything else is listed under not_applicable with a reason.
"""

TECH_E2 = "bounded-exhaustive enumeration of inputs x configurations vs. independent reference model"
TECH_E1 = "explicit-state BFS over the real object's reachable states with reference model in lock-step + stateless history enumeration"

CLAIMED = {
    "C01": {
        "category": "exploration",
        "text": "Bounded-exhaustive: every pair of plane binary shapes (quick: <=4 object x <=3 species leaves; thorough: "
                "<=4x<=4 on the full coherent {0,1,2}^3 x {0,1,2,inf} cost grid, 5x<=4 on six vectors, <=3x5..6 on the core menu), "
                "every leaf assignment (hence every pattern of empty species), thl and exh under ALL and ANY (menus include transfers far dearer than a duplication: 4x4 leaves at hgt 8), "
                "generate_all per input under five cost vectors (hgt=inf, zeros, incoherent); "
                "oracle = brute force over all |S|^internal mappings. Operation histories: one input object per shape pair (3x4 / 4x4 leaves) whose "
                "assignment and cost dicts are updated in place through every case; species-retopology histories: the species tree rebuilt three times from the node objects "
                "of its predecessor (handed out in the opposite order) under a fresh LowestCommonAncestor, then every assignment solved on it (3x4 leaves). Complete within the slices, silent about larger inputs.",
        "design_ref": "6 (C01), 4, 5",
        "note": "Trusted: refmodel/dtl.py (cross-validated brute force <-> Bellman), ete3 container, CPython. Cost vectors "
                "restricted to spe <= dup + 2*floss; outside it only the F-COHERENCE witnesses of known_findings.json are replayed.",
        "technique": TECH_E2,
    },
    "C02": {
        "category": "exploration",
        "text": "Bounded-exhaustive over labelled inputs: quick <=3 object x <=2 species leaves x all 15 arrangements of <=3 families "
                "(tuples up to family renaming where the menu is closed under renaming, restricted menus in full; inconsistent orders kept) + prescribed root orders; thorough adds <=3x<=3x3 families, "
                "4x<=3x2 families, 4x<=2x subsequences of abc, each with its coherent cost menu, ext_spfs and base_spfs, ALL and ANY. "
                "quick also 4-leaf chains on one species x subsequences of abc, 5-leaf chains on one species x {ac, bc, abc, b} with dup = 0, FOUR families (every tuple of subsequences of abcd on 3 leaves; {a, d, abd, acd, abcd} on the three 5-leaf shapes), one family on 4x2 and 4x4 leaves with transfers at 3-6 times the unit price and on 4x3 leaves at the default prices, six loosely constrained families with 120 compatible root orders, prescribed roots with a family no leaf carries, hgt = 0, free full losses, full and segmental losses at different prices (also on the 4-leaf comb x 3-leaf species comb over {a, c, bc, abc}), and session "
                "slices (one input object updated in place, with and without a prescribed root). On about one input in nine the other solvers run on the same input object before the solve, or after it (what was returned must still cost the same). Input presentation varies with the input: leaf "
                "dictionaries in three orders, syntenies typed as lists / tuples, prefix-related multi-character family names, same-label ancestors. "
                "Oracle: Bellman over (species, subsequence) for every compatible root order; base: LCA mapping fixed.",
        "design_ref": "6 (C02), 4.2-4.4, 5",
        "note": "Trusted: refmodel/ordered.py (cross-validated against brute force in selftest). Coherent cost region only; "
                "F-COHERENCE witnesses replayed from known_findings.json. Nothing claimed beyond 4 object leaves / 3 families.",
        "technique": TECH_E2,
    },
    "C03": {
        "category": "exploration",
        "text": "Bounded-exhaustive over unordered labelled inputs: quick <=3x<=3 leaves x all subsets of 3 families and 4x<=2x2 families; "
                "plus chains of 5 leaves on one species x 3 families and chains of 4 leaves on a species cherry x 3 families; "
                "thorough adds 4x<=3x2, 4x<=2x4 families, 5x<=2x2. Oracle searches EVERY admissible labelling (brute force <=4 leaves, "
                "plus every 4-leaf object on 3 species leaves with one family; Bellman at 5), so the solver's restriction to the LCA/INHERIT labellings is itself decided on these slices. Session slice: one "
                "input object per shape pair (<=3x<=3 leaves, 2 families) updated in place; retopology session: one root node object given every "
                "object shape of 2..4 leaves in turn, every input of each shape solved on it. Transfer-price slices: 4x3 leaves with singleton families at hgt 2 / sloss 1-2, 4x4 leaves with one family at hgt 6.",
        "design_ref": "6 (C03), 4.2-4.4, 5",
        "note": "Trusted: refmodel/unordered.py (brute force <-> Bellman cross-validated). Coherent cost region only; "
                "F-COHERENCE witnesses replayed from known_findings.json.",
        "technique": TECH_E2,
    },
    "C04": {
        "category": "exploration",
        "text": "Bounded-exhaustive validity check of every object returned by all seven algorithms under both policies on the P-, O-, U-slices "
                "(multifurcating inputs with object leaves named after ANOTHER species than the assigned one; incl. 5-leaf chains x 3 families for the unordered solvers; family names spelled, depending on the input, as letters, as prefix-related names or as names equal up to leading zeros) and on multifurcating inputs (Schroeder shapes <=3x<=3 leaves; thorough also 4-leaf objects with one 3-ary polytomy) for the "
                "extended solvers, with a cost menu that includes sloss=0, all-zero and incoherent vectors; the structural predicate is evaluated "
                "on the trees each solution refers to; on refinements the cost must also be finite under the REQUESTED unit costs (hgt = inf included); "
                "a polytomy session slice solves one multifurcating input object again after in-place updates of its leaf data and costs; "
                "a retopology session gives one root node object every binary shape of 2..4 leaves in turn; three object leaves on the 10-leaf species caterpillar with transfers forbidden and full losses at 3 (general solver).",
        "design_ref": "6 (C04)",
        "note": "Trusted: the validity predicates in refmodel/{dtl,ordered,unordered}.py. No optimality is checked here (C01-C03, C05, C08).",
        "technique": TECH_E2,
    },
    "C05": {
        "category": "exploration",
        "text": "Bounded-exhaustive comparison of the ALL result with the complete optimal set of the reference models, key for key, "
                "and of ANY with membership in it, for thl/exh (quick P4x3, thorough P4x4 + 5x<=3) and the four labelled solvers "
                "(quick O3x2x3, U3x3x3, U4x2x2, 5-leaf chains x 1 species x 3 families; thorough O3x3x3, O4x3x2, U4x3x2, U4x2x4, U5x2x2) on a tie-rich coherent cost menu (free segmental losses included); the plain policy sequences run after a sibling input on the same tree objects was solved under another cost vector; quick also every tuple of subsequences of abcd (four families) on 3 object leaves and 5-leaf chains over {a, c, d, bd, abcd}; the 5-leaf comb on a species cherry over {ac, b, ab} (several root orders with different optima while transfers pay off).",
        "design_ref": "6 (C05)",
        "note": "Trusted: the reference models' optimal sets (brute force / Bellman, cross-validated). Coherent region only; "
                "F-COHERENCE set witnesses replayed from known_findings.json.",
        "technique": TECH_E2,
    },
    "C06": {
        "category": "model_checking",
        "text": "Model-trace conformance: every valid species mapping enumerated by the reference model (quick: inputs <=4x<=3 leaves, 2 object leaves on every species tree with <=6 leaves, 3 on <=5; "
                "thorough <=4x<=4, 5x<=3, 2x<=7, 3x<=6, 4x5), every ordered labelling (root abc/ab, each node any non-empty subsequence of its parent's) "
                "and every valid unordered labelling on the small labelled slices is loaded into a real (Super)ReconciliationOutput and "
                "evaluated by node_event / reconciliation_cost / labeling_cost / cost under 12 cost vectors (incoherent, zero and infinite "
                "included); states = model solutions, transitions = (solution, vector) evaluations, every trace replayed on the implementation. "
                "CLI clause: printed minimum vs model cost of each written object on a <=3x<=2 sub-slice, 7 algorithms.",
        "design_ref": "6 (C06), 5.2",
        "note": "Trusted: the documented event model as transcribed in refmodel/{dtl,ordered,unordered}.py; ete3; the in-process CLI driver.",
        "technique": "exhaustive enumeration of model states (solutions) with every trace replayed against the implementation's evaluator",
    },
    "C07": {
        "category": "exploration",
        "text": "Bounded-exhaustive: every binary input with <=4x<=4 and 5x<=3 leaves (quick) / 5x<=4, 4x5, 3x6 (thorough), every leaf assignment; "
                "reconcile_lca's mapping = model LCA mapping, valid, and cheapest among ALL transfer-free valid mappings (enumerated by the model) "
                "for all 36 (dup, loss) in {0..5}^2, unique when loss > 0; implementation cost = model cost. Operation histories: one species "
                "tree and one LowestCommonAncestor object (named / unnamed ancestors; built after an earlier structure has indexed the same node objects on the mirrored tree) shared by every object tree of the bound, the leaf-mapping "
                "dict updated in place through every assignment, every ordered pair of assignments on small inputs; the caller's own cost dict edited after the input was built (a cost sweep); reconcile_thl at hgt = inf under ANY and ALL with losses at 1, 3 and 4 must return exactly the LCA reconciliation (<=4x<=4 leaves; with free full losses: the LCA cost); the exhaustive solver at hgt = inf returns only the LCA reconciliation (<=3x<=3); the LCA result handed on by name after label_internal on partially labelled trees.",
        "design_ref": "6 (C07)",
        "note": "Trusted: refmodel/dtl.py. The comparison with thl at hgt=inf is C10's.",
        "technique": TECH_E2,
    },
    "C08": {
        "category": "exploration",
        "text": "Enumerator: all 258 plane Schroeder shapes up to 6 leaves (named, partly coloured; also nameless ancestors, small-integer names, and - every multifurcating shape - leaf names "
                "in <species>_<suffix> style whose concatenations collide, in all 6 rotations) - binarize() = the model's refinements as a set, "
                "prod (2k-3)!! of them, each once, clades/names/colours/leaf names kept, argument untouched; ReconciliationInput.binarize() on all "
                "<=3x<=3 shape pairs. End-to-end: every input with a polytomy in either tree, <=3x<=3 leaves (thorough: + 4-leaf objects with one "
                "3-ary node), small synteny menus, ext_spfs and superdtl, ALL and ANY: optimum = minimum over all refinement pairs of the C02/C03 "
                "oracle, ALL = union of the per-refinement optimal sets, solutions refer to genuine refinements with named new nodes; plus a session "
                "slice: one multifurcating input object solved again after in-place edits of ancestor names, a colour and its leaf data.",
        "design_ref": "6 (C08)",
        "note": "Trusted: refmodel/refine.py and the C02/C03 oracles. Coherent costs only. A 4-leaf star on a 3-leaf star (45 refinement pairs per "
                "case) is not enumerated with all assignments.",
        "technique": TECH_E2,
    },
    "C09": {
        "category": "exploration",
        "text": "Bounded-exhaustive metamorphic check: for every input of the slices (quick: thl on P4x3, ordered O3x2x2, unordered U3x2x2 and U3x1x3, one family on 3x(3..4) leaves; transformations include unnamed ancestors and another input solved first on the same tree and LCA objects; thorough: "
                "thl on all shapes with 5-6 object leaves x <=3 species leaves and P4x4, O3x3x3, O4x3x2, U3x3x3, U4x2x4), every coherent vector of the "
                "menu and thl / ext_spfs / base_spfs / superdtl / base_uspfs, the ALL result is compared with the result on every transformation of a "
                "finite menu (single-node child swaps, mirror, 3 node renamings, 2 family renamings, outgroup on either side, repetition on the same "
                "object and on a fresh one, scaling x2/x3, each unit cost +1); plus a fixed corpus solved in fresh interpreters under "
                "PYTHONHASHSEED 0..3 with byte-identical canonical output. Further quick slices: child-order transformations on every 4-leaf labelled object over a species cherry (2 families), on 3x3 leaves (unordered) and on 5-leaf chains over four families; raising the full-loss price on the 4-leaf comb x 3-leaf species comb with sloss > floss; the input solved after a pass through its dictionary form (also with species names that differ only by letter case) under vectors with a zero or infinite unit cost. Further transformations: every other algorithm of the package run first on the same input object, the input built with the constructor's default costs after a sibling default-cost input had its prices raised in place, leaf dictionaries written in another order, "
                "children swapped in place on the live trees with a new LCA structure, prices doubled in place on the same input object.",
        "design_ref": "6 (C09), 7",
        "note": "No oracle needed (metamorphic relations). Object-address-dependent iteration order is not controllable; results compared as sets.",
        "technique": "bounded-exhaustive enumeration of inputs x finite transformation menu with metamorphic oracle; enumerated hash seeds in fresh processes",
    },
    "C10": {
        "category": "exploration",
        "text": "Bounded-exhaustive differential check between the seven algorithms on every consistent labelled input of the slices "
                "(quick O3x2x3; thorough O3x3x3, O4x3x2) and on every single-family labelling of the P-slices (quick P4x3; thorough P4x4, 5x<=3), "
                "coherent cost menu (with hgt < dup and hgt = 0), both policies: ext <= base, unordered <= ordered, thl <= lca (= at hgt=inf), single family: ext_spfs = superdtl = thl and "
                "base_spfs = base_uspfs = lca; plus thl <= lca on 3-leaf objects over 6-leaf species trees, thl = superdtl on 5-leaf single-family "
                "inputs at hgt = 2*dup, 4- and 5-leaf chains on one species; 4x3 leaves with singleton families at hgt 2 / sloss 1-2; unit costs 10^10 apart; plain inputs whose costs are edited in place through a five-step history.",
        "design_ref": "6 (C10)",
        "note": "No oracle: compares the implementations' own cost() values (C06 validates those). Coherent cost region only.",
        "technique": "bounded-exhaustive enumeration of inputs x configurations with differential (cross-algorithm) oracle",
    },
    "C11": {
        "category": "exploration",
        "text": "Bounded-exhaustive round trip X.from_dict(json.loads(json.dumps(x.to_dict()))) for inputs and outputs: every output of all seven "
                "algorithms on <=3x<=3 inputs, every valid mapping of the P-slice (quick <=3x<=3, thorough <=4x<=3) and every valid unordered / selected "
                "ordered labelling on <=2 families, crossed with 6 naming schemes (digits, underscores, O#/S# look-alikes, names differing only by case, leaf names whose <species>_ prefix names another species than the assigned one), a colour menu on both trees "
                "(all subsets of <=3 object / <=2 species nodes on small trees, root and nested colours) and a float-infinite transfer cost; trees, "
                "mappings, syntenies, flag, events, cost compared, and to_dict() of the copy reproduced verbatim on the listed fields; every object is "
                "serialised a second time after an in-place edit of its trees and costs; multifurcating inputs (<= 4 / 5 leaves) for child order; "
                "unordered labellings also typed as unsorted lists; a parent and child with the same colour; explicit zero costs; every text is read a second time after the first copy was edited in place; ordered inputs also with a prescribed root order (an entry for the root in leaf_syntenies); the dictionary handed to from_dict must come back unchanged; an object read back earlier in the process must still serialise as it did; an ordered solution with an empty synteny; colours spelled upper-case, lower-case and with a leading '#'.",
        "design_ref": "6 (C11)",
        "note": "Premise: unique node names. The embedded input's leaf_syntenies of an output is outside the listed fields and not compared.",
        "technique": TECH_E2,
    },
    "C12": {
        "category": "exploration",
        "text": "Bounded-exhaustive over documented-format input files: every binary input with <=3x<=2 leaves and 4x1 (thorough <=3x<=3 and 4x<=2) x "
                "ancestor naming patterns of both trees (all/none/each single one unnamed, pre-existing O0/O1/S0/S1 incl. consecutive and gapped taken numbers, species leaves named S0, S1, ...) x 7 "
                "algorithms (labelled: consistent synteny tuples on <=2 families) x any/all x 3 cost options (quick rotates the options, thorough "
                "crosses them), with and without explicit leaf_object_species; `reconcile` and `draw` run in-process, the first cases of each shard "
                "also as real subprocesses. Verdict on status, one JSON object per line, unique non-empty names with the reference pre-order "
                "numbering, cost() of each parsed-back object = printed minimum, all contains any, draw accepts each object in both orientations, "
                "status 1 + not a single byte on stdout without syntenies. Multifurcating input files (a polytomy in either tree, <=3x<=3 leaves, thorough 4-leaf "
                "objects with one ternary node) for ext_spfs / superdtl: binary output trees, input clades and their names kept, new ancestors numbered "
                "by the reference pre-order rule, parse-back cost = printed minimum, all contains any, draw accepts. Cost options include an "
                "optimum needing > 6 significant digits, a fraction, a zero unit cost and (plain algorithms only) a speciation dearer than a duplication plus two losses; plain algorithms are also run on files that carry "
                "syntenies; species names may contain underscores; every other synteny tuple spells its families with TeX- / Newick-special characters; 5-leaf trees for the numbering order.",
        "design_ref": "6 (C12)",
        "note": "Trusted: the in-process driver (conformance-checked against subprocess runs each run), the stub TeX measurer, ete3's Newick parser.",
        "technique": TECH_E2,
    },
    "C13": {
        "category": "exploration",
        "text": "Bounded-exhaustive over every valid mapping (model enumerator) of every binary input with <=4x<=3, <=3x4, <=2x5..6 leaves (thorough "
                "<=5x<=3, <=4x4, <=3x5..6) x {unlabelled, two ordered labellings} x both orientations x 4 stub size functions: one branch per object node in the species "
                "it maps to with the model's event kind, per-species loss counts equal to the model's, transferred child on the right; the TikZ text "
                "holds the same numbers of event nodes, loss markers and transfer arrows, each arrow ending at the anchor of the transferred child; "
                "the stub asserts one measured box per branch. Operation histories: every ordered pair of distinct valid mappings of one input "
                "(<=3x<=3, thorough <=4x<=3) drawn one after the other on the SAME tree objects, once with both output objects alive and once with the first released before the second is created (address reuse counted); nameless object ancestors; 5-leaf chains on two "
                "species (four events of one kind).",
        "design_ref": "6 (C13)",
        "note": "Trusted: refmodel/picture.py loss-location rule; stub measurer instead of TeX; the text is scanned, not typeset.",
        "technique": TECH_E2,
    },
    "C14": {
        "category": "exploration",
        "text": "Same reconciliations as C13 x 6 stub size functions x 13 DrawParams settings (each numeric layout parameter at 0.5 and 40, all small, "
                "all large), menus rotated over the inputs: finite coordinates, sibling boxes disjoint and inside the parent's, trunks pairwise "
                "disjoint, every referenced anchor/branch present (direct lookup and by rendering), horizontal layout = transpose of the vertical "
                "layout computed with width/height-swapped sizes (1e-9), repeated computation identical - on fresh objects, on the same object, and "
                "across orientations on one object.",
        "design_ref": "6 (C14)",
        "note": "Continuous parameters are covered on finite menus only. A first version also demanded trunks/event boxes inside the species box; "
                "that is not in the statement and was removed (DESIGN 9.4).",
        "technique": TECH_E2,
    },
    "C15": {
        "category": "exploration",
        "text": "Same reconciliations x every colouring of a menu (none, root, inner, every nested pair, explicit black inside / around a colour, leaf, two subtrees, three levels) with "
                "labelling / naming scheme (underscores, backslashes, leaf names with an empty index) / orientation / top-down or bottom-up mapping dicts / wrap width (18, 7, 30) rotating: scanner for balanced braces, single picture, terminated "
                "\\path/\\node statements, colours defined before use; colour of every event node and loss marker (layout and text) = nearest coloured "
                "ancestor-or-self; escaped names; the reconciliation handed to the renderer must come back unchanged; synteny labels list the node's families (also multi-character families whose lists concatenate to the same text), omitted iff equal to the parent's, a family occurring twice in a synteny; wrapped at the width of that drawing (no line longer, no more lines than greedy). Wrapper: all word lists "
                "of <=5 (6) words over 4 (5) lengths x widths 1..30 and syntenies of <=12 families against greedy wrapping.",
        "design_ref": "6 (C15)",
        "note": "Family names contain no backslash (a doubled backslash in a label is a TeX line break and would be ambiguous to un-wrap).",
        "technique": TECH_E2,
    },
    "C16": {
        "category": "model_checking",
        "text": "Explicit-state BFS over all reachable states of real Entry objects and table cells (1-3 dimensional, "
                "Dict and List dimensions incl. two leading List dimensions, fresh and pre-initialised, with a cell handle kept from before the first write; every table is the second one built from the same list of dimensions) under every batch of <=2 (quick) / <=3 (thorough) "
                "candidates over {0,1,2}x{None,a,b}, for the 2x3 policy pairs (also entries copied from another entry through the (value, infos) constructor), with the reference (optimum, optimal-tag set) "
                "run in lock-step; every pair of reachable entry states combined under 8 combinators (three with tag-dependent values, one that returns untagged candidates), each pair also with the left / right / both operands living in table cells; all histories of "
                "depth 4 (quick) / 5 (thorough) in every batch split replayed on fresh objects. Exhaustive within those bounds.",
        "design_ref": "6 (C16), 3 (E1 explorer)",
        "note": "Trusted: CPython, the `infinity` package ordering, refmodel/dpentry.py. Values outside {0,1,2} and falsy tags are not explored.",
        "technique": TECH_E1,
    },
    "C17": {
        "category": "exploration",
        "text": "Exhaustive over all rooted plane trees of any arity with <= 11 (quick) / 12 (thorough) nodes built through the ete3 API (plus edit "
                "histories: structure built, the same tree object edited by every subtree move / leaf addition / removal, rebuilt; <= 7 / 8 nodes; structures of a tree and of its subtrees alive together; nameless nodes): every "
                "node, ordered pair and ordered triple for lca / is_ancestor_of / is_strict_ancestor_of / is_comparable / level / distance against "
                "parent-chain definitions; every array of length <= 11 / 13 over {0,1,2} x every (start, stop) pair for RangeMinQuery, up to length 8 also with elements that support `<` only.",
        "design_ref": "6 (C17)",
        "note": "Trusted: ete3 parent/children pointers, refmodel/trees.py. Trees beyond 12 nodes and arrays beyond length 13 are not explored.",
        "technique": TECH_E2,
    },
    "C18": {
        "category": "exploration",
        "text": "Exhaustive over all (child != 0, parent) mask pairs up to 11 (quick) / 13 (thorough) bits x both end modes against an independent "
                "run counter, and all sequences of distinct elements up to length 11 / 13 with all their subsequences (six element alphabets: ints, strings, "
                "unhashable lists, elements equal under str() but distinct under ==, elements with one common hash and text) for the mask <-> subsequence round trip (the returned list is edited and re-encoded; it must not be the caller's parent), also with subsequence and parent given as different kinds of sequence (tuple / list / str / range); a str child against parents holding concatenations of earlier elements, deque parents (no slicing); one mutable parent sequence rearranged in place through every permutation (<= 6 / 7 elements).",
        "design_ref": "6 (C18)",
        "note": "Trusted: refmodel/graphs.py:lost_runs_mask.",
        "technique": TECH_E2,
    },
    "C19": {
        "category": "exploration",
        "text": "Exhaustive over all 66 067 digraphs on <= 4 vertices (self-loops included), loop-free digraphs on 5 vertices (<= 5 edges quick, "
                "all 2^20 thorough), loop-free digraphs on 6-7 vertices with <= 2 (3) edges (up to 5040 orderings each) and the precedence graphs the ordered solver builds for every tuple of <= 3 (4) leaf syntenies: toposort_all "
                "= permutation filter as a multiset, toposort returns a member iff one exists; the null graph; on <= 4 vertices also labels that `<` orders only partially (frozensets) and a None / 0 / '' / () mix; one dict re-wired in place into every 3-vertex graph with the same number of edges between sorts; one graph object (shared successor "
                "sets) used by toposort, toposort_all and toposort again without being modified.",
        "design_ref": "6 (C19)",
        "note": "Trusted: refmodel/graphs.py:topo_orders (permutation filtering).",
        "technique": TECH_E2,
    },
    "C20": {
        "category": "model_checking",
        "text": "Union-find: explicit-state BFS over every unite() history on 3-6 elements to a fixpoint (<= 5 elements; 6 elements to depth 4 quick, "
                "fixpoint thorough), real (parent, rank, groups) paired with the naive partition, find/len/to_list/unite result/binary() checked in "
                "every state, each transition replayed on a fresh object. Triples/supertrees: exhaustive over all labelled binary trees on <= 5 (6) "
                "leaves, all 4096 subsets of the triples on 4 leaves (and <= 3 triples on 5 leaves), all pairs of binary trees on overlapping leaf "
                "sets within 5 labels (also passed as a generator / map object, and with the second tree's children written in the opposite order); ancestors unnamed, freshly named, same-labelled or named like a leaf; leaf labels with Newick-special characters (tree built through the API); decomposition repeated after an in-place exchange of two leaf labels; every returned ete3 tree is checked for consistent parent / child links and for sharing no node object with another result.",
        "design_ref": "6 (C20), 3 (E1 explorer)",
        "note": "Trusted: refmodel/graphs.py (clade-based display test, two-block coarsenings), ete3.",
        "technique": TECH_E1 + "; bounded-exhaustive enumeration of trees and triple sets for the triple routines",
    },
}

PENDING_REASON = "check not built yet in this session (see DESIGN.md section 6 for the planned bounded-exhaustive check)"

ALL_IDS = [f"C{i:02d}" for i in range(1, 21)]
NOT_APPLICABLE = {}
