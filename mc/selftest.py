"""Machinery self-test run by setup_cmd: imports, oracle cross-checks on a tiny slice."""
import importlib
import sys
import time

from .registry import CLAIMED


def main():
    t0 = time.time()
    from . import adapters  # noqa: F401  verifies that superrec2 is imported from the tree under test
    for pid in sorted(CLAIMED):
        mod = importlib.import_module(f"mc.props.{pid.lower()}")
        for attr in ("LEVEL", "RULE", "plan", "run_shard", "replay"):
            if not hasattr(mod, attr):
                print(f"selftest: {pid} lacks {attr}")
                return 2
        for tier in ("quick", "thorough"):
            if not mod.plan(tier, 0):
                print(f"selftest: {pid} has an empty {tier} plan")
                return 2
    from .refmodel import selfcheck
    msg = selfcheck.run()
    if msg:
        print("selftest: reference models disagree:", msg)
        return 2
    print(f"selftest: {len(CLAIMED)} check modules importable, reference models cross-validated, {time.time()-t0:.1f}s")
    return 0


if __name__ == "__main__":
    sys.exit(main())
