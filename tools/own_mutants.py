#!/usr/bin/env python3
"""Hand-written single-site mutants (DESIGN.md section 8, first wave).

    tools/own_mutants.py build            # (re)generate mutants/<id>/patch.diff from the SPEC below against /repo HEAD
    tools/own_mutants.py run [ids...]     # suite + expected checks (quick) on a scratch copy; writes mutants/<id>/meta.json

A mutant is kept only if the 55-test suite still passes with it.
"""
import json
import os
import shutil
import subprocess
import sys

sys.path.insert(0, os.path.dirname(os.path.abspath(__file__)))
import seeded  # noqa: E402

VERIF = seeded.VERIF
OUT = os.path.join(VERIF, "mutants")
S = "src/superrec2/"

# id, file, old, new, properties it breaks, expected checks
SPEC = [
    ("m01-thl-no-spe-cost", S + "compute/reconciliation.py",
     "            costs[NodeEvent.SPECIATION] + left.value + right.value,",
     "            left.value + right.value,", "C01", ["C01", "C05", "C10"]),
    ("m02-thl-transfer-to-ancestor", S + "compute/reconciliation.py",
     "        elif not species_lca.is_ancestor_of(other_species, root_species):\n            min_lts.update(",
     "        else:\n            min_lts.update(", "C01", ["C01", "C04"]),
    ("m03-spfs-separate-conserv", S + "compute/super_reconciliation.py",
     "                            value=sub_cost + segment_dist,",
     "                            value=sub_cost + conserv_dist,", "C02", ["C02", "C05"]),
    ("m04-entry-any-keeps-adding", S + "utils/dynamic_programming.py",
     "if info and (is_all or (is_any and not self._infos)):",
     "if info and (is_all or is_any):", "C16", ["C16", "C05"]),
    ("m05-cost-transfer-wrong-side", S + "model/reconciliation.py",
     "            left_dist\n            if species_lca.is_ancestor_of(rec[node], rec[left_node])\n            else right_dist",
     "            right_dist\n            if species_lca.is_ancestor_of(rec[node], rec[left_node])\n            else left_dist", "C06", ["C06"]),
    ("m06-unordered-dup-max", S + "model/reconciliation.py",
     "                    total_cost += min(left_cost, right_cost)",
     "                    total_cost += max(left_cost, right_cost)", "C06", ["C06", "C03"]),
    ("m07-segdist-no-end-correction", S + "utils/subsequences.py",
     "    if in_segm and not edges:\n        dist -= 1\n", "", "C18", ["C18", "C02"]),
    ("m08-toposort-no-restore", S + "utils/toposort.py",
     "        for node_to in graph[node_from]:\n            indeg[node_to] += 1\n", "", "C19", ["C19"]),
    ("m09-unite-same-set-true", S + "utils/disjoint_set.py",
     "        if rep_first == rep_second:\n            return False",
     "        if rep_first == rep_second:\n            return True", "C20", ["C20"]),
    ("m10-label-internal-if", S + "model/reconciliation.py",
     '                while f"O{next_object}" in self.object_tree:',
     '                if f"O{next_object}" in self.object_tree:', "C12", ["C12"]),
    ("m11-distance-level", S + "utils/trees.py",
     "self.level(first) + self.level(second) - 2 * self.level(self(first, second))",
     "self.level(first) + self.level(second) - self.level(self(first, second))", "C17", ["C17"]),
    ("m12-lca-left-left", S + "compute/reconciliation.py",
     "            rec[node] = rec_input.species_lca(rec[left], rec[right])",
     "            rec[node] = rec_input.species_lca(rec[left], rec[left])", "C07", ["C07", "C10"]),
]


def build():
    os.makedirs(OUT, exist_ok=True)
    for mid, path, old, new, prop, expect in SPEC:
        tree = seeded.make_copy("own-" + mid)
        try:
            fp = os.path.join(tree, path)
            src = open(fp).read()
            if src.count(old) != 1:
                print(f"{mid}: pattern occurs {src.count(old)} times in {path} - skipped")
                continue
            subprocess.run(["git", "init", "-q"], cwd=tree)
            subprocess.run("git add -A && git -c user.email=x -c user.name=x commit -qm base", shell=True, cwd=tree)
            open(fp, "w").write(src.replace(old, new))
            diff = subprocess.run(["git", "diff"], cwd=tree, stdout=subprocess.PIPE, text=True).stdout
            d = os.path.join(OUT, mid)
            os.makedirs(d, exist_ok=True)
            open(os.path.join(d, "patch.diff"), "w").write(diff)
            mp = os.path.join(d, "meta.json")
            meta = json.load(open(mp)) if os.path.exists(mp) else {}
            meta.update({"property": prop, "expected_checks": expect, "origin": "hand-written (tools/own_mutants.py)",
                         "summary": f"{path}: single-site change"})
            json.dump(meta, open(mp, "w"), indent=1, sort_keys=True)
            print(mid, "built")
        finally:
            shutil.rmtree(tree, ignore_errors=True)


def run(ids):
    for mid, path, old, new, prop, expect in SPEC:
        if ids and mid not in ids:
            continue
        d = os.path.join(OUT, mid)
        tree = seeded.make_copy("own-" + mid, os.path.join(d, "patch.diff"))
        try:
            passed, failed, tail = seeded.run_suite(tree)
        finally:
            shutil.rmtree(tree, ignore_errors=True)
        mp = os.path.join(d, "meta.json")
        meta = json.load(open(mp))
        meta["suite"] = {"passed": passed, "failed_any": failed}
        json.dump(meta, open(mp, "w"), indent=1, sort_keys=True)
        print(mid, "suite", passed, failed, flush=True)
        if passed != seeded.BASELINE_PASS or failed:
            print("   suite kills this mutant; not a useful demonstration")
            continue
        subprocess.run([sys.executable, os.path.join(VERIF, "tools", "seeded.py"), "run", d, "--checks", ",".join(expect), "--record"])


if __name__ == "__main__":
    if sys.argv[1] == "build":
        build()
    else:
        run(sys.argv[2:])
