#!/venv/bin/python
"""Regenerate /verif/MANIFEST.json from mc/registry.py."""
import json, os, sys
HERE = os.path.dirname(os.path.dirname(os.path.abspath(__file__)))
sys.path.insert(0, HERE)
from mc.registry import CLAIMED, ALL_IDS, PENDING_REASON, NOT_APPLICABLE  # noqa

BASE = ("cd /repo && /venv/bin/python -m pytest -ra -q -p no:cacheprovider --timeout=900 "
        "--continue-on-collection-errors")
man = {
    "version": 1,
    "setup_cmd": "./selftest",
    "hooks": {
        "guard": "SUPERREC2_VERIF",
        "enable": "no hooks exist in /repo: every seam the checks use is already public (tex.measure is a module "
                  "attribute patched from outside, TQDM_DISABLE=1 silences progress bars, the CLI is driven through "
                  "superrec2.cli.__main__.run()); ./check exports SUPERREC2_VERIF=1 for uniformity only",
        "baseline_off_cmd": BASE,
        "source_commits": [],
        "add_only": True,
    },
    "engines": [
        {"name": "mc-runner", "path": "mc/runner.py", "serves_properties": sorted(CLAIMED),
         "kind_free_text": "hand-written bounded-exhaustive explorer (E2) and explicit-state BFS explorer (E1) in Python, "
                           "16 worker processes, independent reference models under mc/refmodel"}
    ],
    "checks": [],
    "not_applicable": [],
    "notes": "Exit 0 = held on everything explored (KNOWN-FINDING lines allowed); 1 = VIOLATION; 2 = internal error of the "
             "machinery. known_findings.json lists recorded findings and fixed defects (DESIGN.md section 9).",
}
for pid in ALL_IDS:
    if pid in CLAIMED:
        c = CLAIMED[pid]
        man["checks"].append({
            "property_id": pid,
            "quick_cmd": f"./check {pid} --tier quick",
            "thorough_cmd": f"./check {pid} --tier thorough",
            "evidence_file": f"/verif/evidence/{pid}.json",
            "replay_cmd_template": f"./check {pid} --replay {{path}}",
            "engine": "mc-runner",
            "level_claimed": {"category": c["category"], "text": c["text"], "design_ref": c["design_ref"]},
            "level_note": c["note"],
            "technique": c["technique"],
        })
    else:
        man["not_applicable"].append({"property_id": pid, "reason": NOT_APPLICABLE.get(pid, PENDING_REASON)})
if not man["not_applicable"]:
    del man["not_applicable"]
with open(os.path.join(HERE, "MANIFEST.json"), "w") as fh:
    json.dump(man, fh, indent=1)
    fh.write("\n")
print("claimed:", sorted(CLAIMED), "pending:", [x["property_id"] for x in man.get("not_applicable", [])])
