#!/bin/bash
# Run, for every seeded change, the check of the property it targets plus the checks that exercise the file it touches
# (quick tier), recording the outcome in seeded/<id>/meta.json.  Usage: tools/seeded_matrix.sh [id-prefix]
cd "$(dirname "$0")/.."
related() {
  case "$1" in
    *compute/reconciliation.py*) echo C01,C04,C05,C07,C09,C10 ;;
    *compute/exhaustive.py*) echo C01,C04,C05 ;;
    *compute/super_reconciliation.py*) echo C02,C04,C05,C08,C09,C10 ;;
    *compute/unordered_super_reconciliation.py*) echo C03,C04,C05,C08,C09,C10 ;;
    *model/reconciliation.py*) echo C06,C11,C12,C08,C02,C03 ;;
    *model/tree_mapping.py*) echo C11,C12 ;;
    *cli/*) echo C12,C06 ;;
    *utils/dynamic_programming.py*) echo C16,C01,C02,C03,C05 ;;
    *render/*) echo C13,C14,C15,C12 ;;
    *utils/text.py*) echo C15 ;;
    *utils/range_min_query.py*) echo C17,C01,C07 ;;
    *utils/trees.py*) echo C17,C20,C08,C07,C01 ;;
    *utils/subsequences.py*) echo C18,C02,C06 ;;
    *utils/toposort.py*) echo C19,C02 ;;
    *utils/disjoint_set.py*) echo C20 ;;
    *) echo "" ;;
  esac
}
for d in seeded/${1}*/; do
  id=$(basename "$d")
  prop=$(python3 -c "import json;print(json.load(open('$d/meta.json'))['property'])")
  files=$(grep '^+++ b/' "$d/patch.diff" | tr '\n' ' ')
  set=$prop
  for f in $files; do r=$(related "$f"); [ -n "$r" ] && set="$set,$r"; done
  set=$(echo "$set" | tr ',' '\n' | sort -u | paste -sd,)
  echo "== $id: $set"
  python3 tools/seeded.py run "$d" --checks "$set" --record 2>&1 | grep -v conda | cut -c1-300
done
