"""Replay every entry of known_findings.json on the tree under test (PYTHONPATH decides) and print its status."""
import importlib, json, os, sys
HERE = os.path.dirname(os.path.dirname(os.path.abspath(__file__)))
sys.path.insert(0, HERE)
os.environ.setdefault("TQDM_DISABLE", "1")
d = json.load(open(os.path.join(HERE, "known_findings.json")))
only = sys.argv[1:] 
for e in d["entries"]:
    if only and e["property"] not in only and e["id"] not in only:
        continue
    mod = importlib.import_module("mc.props." + e["property"].lower())
    if hasattr(mod, "worker_init") and e["property"] not in ("C02","C03","C04","C05"):
        mod.worker_init()
    r = mod.replay({"property": e["property"], "subcheck": e.get("subcheck"), "case": e["case"]})
    print(e["kind"], e["property"], e["id"], "VIOLATED" if r.get("violated") else "holds", "|", str(r.get("detail"))[:160])
