#!/usr/bin/env python3
"""Seeded-change bookkeeping (DESIGN.md section 8).

    tools/seeded.py verify <dir>            # patch applies, suite unchanged (55 pass), demo FAILs with / PASSes without
    tools/seeded.py run <dir> [--checks C01,C05] [--tier quick]   # run checks against a scratch copy with the patch
    tools/seeded.py matrix                  # print the detection matrix from all seeded/*/meta.json

<dir> holds patch.diff and demo.py.  Nothing here touches /repo's working tree: the patch is applied to a scratch
copy (git worktree export under $SEEDED_SCRATCH, default /tmp/verif-seeded) which is removed afterwards, and the checks
are pointed at it through VERIF_REPO_SRC (their evidence/replay files go to a scratch directory, never to /verif/evidence).
"""
import argparse
import json
import os
import re
import shutil
import subprocess
import sys
import time

VERIF = os.path.dirname(os.path.dirname(os.path.abspath(__file__)))
SCRATCH = os.environ.get("SEEDED_SCRATCH", "/tmp/verif-seeded")
PY = "/venv/bin/python"
BASELINE_PASS = 55


def sh(cmd, **kw):
    return subprocess.run(cmd, shell=isinstance(cmd, str), stdout=subprocess.PIPE, stderr=subprocess.STDOUT, text=True, **kw)


def make_copy(tag, patch=None):
    d = os.path.join(SCRATCH, tag)
    if os.path.exists(d):
        shutil.rmtree(d)
    os.makedirs(d)
    r = sh(f"git -C /repo archive HEAD | tar -x -C {d}")
    if r.returncode:
        raise SystemExit("cannot export /repo HEAD: " + r.stdout)
    if patch:
        r = sh(["git", "apply", "--directory", d, "--unsafe-paths", os.path.abspath(patch)], cwd="/")
        if r.returncode:
            # fall back to patch(1)
            r = sh(f"patch -p1 -d {d} < {os.path.abspath(patch)}")
            if r.returncode:
                raise SystemExit("patch does not apply: " + r.stdout)
    return d


def env_for(tree):
    e = dict(os.environ)
    e.update({"PYTHONPATH": os.path.join(tree, "src"), "TQDM_DISABLE": "1", "PYTHONDONTWRITEBYTECODE": "1", "PYTHONHASHSEED": "0"})
    return e


def run_suite(tree):
    r = sh([PY, "-m", "pytest", "-q", "-p", "no:cacheprovider", "--timeout=900", "-x", "--deselect",
            "tests/render/test_draw.py::test_fixtures", "--deselect", "tests/utils/test_tex.py::test_measure"],
           cwd=tree, env=env_for(tree))
    m = re.search(r"(\d+) passed", r.stdout)
    passed = int(m.group(1)) if m else 0
    failed = bool(re.search(r"\d+ (failed|error)", r.stdout))
    return passed, failed, r.stdout[-600:]


def run_demo(tree, demo):
    r = sh([PY, os.path.abspath(demo)], cwd=os.path.dirname(os.path.abspath(demo)), env=env_for(tree), timeout=1800)
    return r.returncode, r.stdout[-800:]


def cmd_verify(a):
    d = a.dir
    patched = make_copy("v-" + os.path.basename(os.path.abspath(d)) + "-p", os.path.join(d, "patch.diff"))
    clean = make_copy("v-" + os.path.basename(os.path.abspath(d)) + "-c")
    try:
        passed, failed, tail = run_suite(patched)
        rc_p, out_p = run_demo(patched, os.path.join(d, "demo.py"))
        rc_c, out_c = run_demo(clean, os.path.join(d, "demo.py"))
    finally:
        shutil.rmtree(patched, ignore_errors=True)
        shutil.rmtree(clean, ignore_errors=True)
    ok = passed == BASELINE_PASS and not failed and rc_p == 1 and rc_c == 0
    res = {"suite_passed": passed, "suite_failed_any": failed, "demo_rc_patched": rc_p, "demo_rc_clean": rc_c, "ok": ok}
    print(json.dumps(res))
    if not ok:
        print("--- suite tail\n" + tail + "\n--- demo patched\n" + out_p + "\n--- demo clean\n" + out_c)
    return 0 if ok else 1


def cmd_run(a):
    d = a.dir
    tag = "r-" + os.path.basename(os.path.abspath(d)) + "-" + str(os.getpid())
    patched = make_copy(tag, os.path.join(d, "patch.diff"))
    out = os.path.join(SCRATCH, tag + "-out")
    checks = a.checks.split(",") if a.checks else [f"C{i:02d}" for i in range(1, 21)]
    results = {}
    try:
        for c in checks:
            e = dict(os.environ)
            e.update({"VERIF_REPO_SRC": os.path.join(patched, "src"), "VERIF_SCRATCH_OUT": out})
            t0 = time.time()
            cmd = [os.path.join(VERIF, "check"), c, "--tier", a.tier]
            if a.budget:
                cmd += ["--budget", str(a.budget)]
            if a.slice:
                cmd += ["--slice", a.slice]
            r = sh(cmd, env=e)
            viol = [l for l in r.stdout.splitlines() if l.startswith("VIOLATION")]
            sub = [l.strip() for l in r.stdout.splitlines() if l.strip().startswith("subcheck=")]
            results[c] = {"exit": r.returncode, "violations": len(viol), "wall_s": round(time.time() - t0, 1),
                          "first": (sub[0][:240] if sub else None)}
            print(c, json.dumps(results[c]), flush=True)
            if r.returncode == 2:
                print(r.stdout[-1500:])
    finally:
        shutil.rmtree(patched, ignore_errors=True)
        shutil.rmtree(out, ignore_errors=True)
    if a.record:
        mp = os.path.join(d, "meta.json")
        meta = json.load(open(mp)) if os.path.exists(mp) else {}
        det = meta.setdefault("checks_run", {})
        det.setdefault(a.tier, {}).update(results)
        meta["detected_by"] = sorted({c for t in det.values() for c, v in t.items() if v["exit"] == 1})
        json.dump(meta, open(mp, "w"), indent=1, sort_keys=True)
        open(mp, "a").write("\n")
    return 0


def cmd_adopt(a):
    """verify a sub-agent's delivery and copy it to seeded/<id>/ with a meta.json"""
    src = a.dir
    rc = cmd_verify(a)
    if rc:
        print("not adopted: verification failed")
        return 1
    dst = os.path.join(VERIF, "seeded", a.id)
    os.makedirs(dst, exist_ok=True)
    for f in ("patch.diff", "demo.py", "notes.md"):
        if os.path.exists(os.path.join(src, f)):
            shutil.copy(os.path.join(src, f), os.path.join(dst, f))
    mp = os.path.join(dst, "meta.json")
    meta = json.load(open(mp)) if os.path.exists(mp) else {}
    meta.update({
        "property": a.property,
        "origin": "fresh sub-agent given only the property text and a scratch worktree",
        "summary": a.summary or "",
        "needs": a.needs or "",
        "verified": {"suite": "55 passed (the 2 TeX-dependent baseline failures deselected), patch applied to an export of /repo HEAD",
                     "demo_with_patch": "exit 1 (FAIL)", "demo_without_patch": "exit 0 (PASS)",
                     "how": "tools/seeded.py verify"},
    })
    json.dump(meta, open(mp, "w"), indent=1, sort_keys=True)
    open(mp, "a").write("\n")
    print("adopted as", dst)
    return 0


def cmd_matrix(a):
    """write seeded/INDEX.md from the meta.json files"""
    root = os.path.join(VERIF, "seeded")
    lines = ["# Seeded changes (generated by tools/seeded.py matrix)", "",
             "Quick-tier results recorded in each meta.json: `fires` = check exits 1 with a VIOLATION line on the patched tree,",
             "`silent` = exit 0. A check not listed was not run against that change.", "",
             "| id | property | change | needs | fires | silent |", "|---|---|---|---|---|---|"]
    n = caught = 0
    for name in sorted(os.listdir(root)):
        mp = os.path.join(root, name, "meta.json")
        if not os.path.exists(mp):
            continue
        m = json.load(open(mp))
        q = m.get("checks_run", {}).get("quick", {})
        fires = sorted(c for c, v in q.items() if v["exit"] == 1)
        silent = sorted(c for c, v in q.items() if v["exit"] == 0)
        n += 1
        caught += 1 if m.get("property") in fires else 0
        lines.append("| %s | %s | %s | %s | %s | %s |" % (name, m.get("property"), m.get("summary", "").replace("|", "/"),
                                                      m.get("needs", "").replace("|", "/"), " ".join(fires) or "-", " ".join(silent) or "-"))
    lines += ["", f"{caught} of {n} changes are caught by the quick tier of the check of the property they target."]
    open(os.path.join(root, "INDEX.md"), "w").write("\n".join(lines) + "\n")
    print(lines[-1])
    return 0


def main():
    ap = argparse.ArgumentParser()
    sub = ap.add_subparsers(dest="cmd", required=True)
    v = sub.add_parser("verify"); v.add_argument("dir")
    r = sub.add_parser("run"); r.add_argument("dir"); r.add_argument("--checks"); r.add_argument("--tier", default="quick")
    r.add_argument("--budget", type=float); r.add_argument("--record", action="store_true"); r.add_argument("--slice")
    ad = sub.add_parser("adopt"); ad.add_argument("dir"); ad.add_argument("id"); ad.add_argument("--property", required=True)
    ad.add_argument("--summary"); ad.add_argument("--needs")
    sub.add_parser("matrix")
    a = ap.parse_args()
    return {"verify": cmd_verify, "run": cmd_run, "matrix": cmd_matrix, "adopt": cmd_adopt}[a.cmd](a)


if __name__ == "__main__":
    sys.exit(main())
