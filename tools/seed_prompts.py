#!/usr/bin/env python3
"""Write the prompts for one wave of the seeded-change campaign (DESIGN.md section 8.3).

    tools/seed_prompts.py <wave-number> <outdir>       # writes <outdir>/prompt<wave>-Cxx.txt

A prompt contains only: the text of one property, the location of the agent's own scratch worktree, the list of mechanisms
earlier agents already used for that property (one line each, from seeded/*/meta.json) and the angles suggested for the wave.
Nothing about /verif's checks is included.
"""
import glob
import json
import os
import sys

VERIF = os.path.dirname(os.path.dirname(os.path.abspath(__file__)))

ANGLES = {
    6: """ANGLES for this round (pick whichever fit this property; stay inside its stated domain):
  * "OPTIMISATIONS": pruning with a bound, leaving a loop early, skipping 'dominated' candidates, memoising with a key that leaves something
    out, precomputing a table for a restricted range, handling the right-hand case 'by symmetry' through swapping arguments, updating a
    quantity incrementally instead of recomputing it;
  * PYTHON IDIOM SLIPS inside an otherwise sensible clean-up: `/` vs `//`, `is` vs `==`, `x or default` on a falsy value, a closure that binds a
    loop variable late, a mutable default argument, zip() truncating the longer list, an off-by-one in a range or slice, operator precedence,
    a comprehension variable shadowing an outer one, a sort key with ties, min()/max() with default=, integer vs float vs infinity arithmetic;
  * SIZE THRESHOLDS: something that is right for small instances and wrong only from a threshold on that is still inside the stated domain
    (five object leaves, four species leaves, four gene families, a node with four children, depth four, nine or more bits, ten or more nodes so
    that 'O10' sorts before 'O2', two-digit identifiers);
  * THE LEAST-WATCHED CLAUSE: choose the clause of the statement that a checker would be most likely to skip (phrases such as 'each once',
    'nowhere else', 'verbatim', 'writes nothing', 'exactly one', 'if and only if', 'never exceed') and break only that one;
  * INTERACTION OF TWO FEATURES that are each handled correctly alone (for instance a colour and a loss, a transfer and a multifurcation, a
    prescribed root order and the unordered model, the ANY policy and a zero unit cost, two different orientations in one process).""",
    7: """ANGLES for this round (pick whichever fit this property; stay inside its stated domain):
  * BEYOND SMALL BOUNDS: assume the property is being checked by exhaustively enumerating SMALL instances - roughly: every input up to 4
    object leaves, 3-4 species leaves and 3 gene families, unit costs from {0, 1, 2, a few larger values, infinity}, sequences of up to a
    dozen elements, graphs of up to 5 vertices (7 when sparse), update histories of up to 5 steps, plus a handful of hand-picked larger
    shapes (chains, one species) - and by replaying short operation histories on shared objects. Look for a regression that such a checker
    would NOT meet although it lies inside the stated domain: one that needs a larger instance, a particular combination of depth AND width,
    a cost value that is not small, a long history, many solutions, or two rare circumstances at once;
  * LESS-USED ENTRY POINTS AND OPTIONS: public functions, methods, keyword arguments, defaults and command-line options that the property
    covers but that a checker may never call or may call in one way only (e.g. an optional argument given explicitly, a second calling
    convention, an alternative constructor, an iterator consumed lazily instead of through list(), a method of a result object);
  * ARITHMETIC AND COMPARISON DETAILS: float rounding versus exact equality when costs are floats or fractions, comparisons between int and
    the package's infinity object, negative zero, sums computed in a different order, `<` versus `<=` at a tie that only some cost vectors
    produce;
  * DATA-DEPENDENT ITERATION: behaviour that depends on which of several equal-cost candidates is met first, on the insertion order of a dict
    or set built from the input, or on the textual order of names - arranged so that natural small inputs happen to come out right.""",
    8: """ANGLES for this round (pick whichever fit this property; stay inside its stated domain):
  * DEGENERATE INSTANCES that are still legal: a tree that is a single node, an object tree with one or two leaves, all objects in one
    species, a species tree with one leaf, an empty or one-element sequence, a graph without arcs, an empty synteny or a family present in
    every leaf, all unit costs zero, identical children, a node whose children are given in the opposite order to the species tree;
  * THE CALLER'S ARGUMENTS: a function that still returns the right thing but now modifies, sorts, empties, aliases or keeps a reference to
    something the caller passed in or gets back (a list, dict, set, tree, cost table), so that the caller's NEXT use of that object - a second
    call, another algorithm, a serialisation, a drawing - goes wrong;
  * DOCUMENTED FORMAT FEATURES that are rarely exercised: NHX annotations other than colour, quoted or blank-padded names, branch lengths and
    support values in the Newick text, keys in another order, optional keys left out or set to null, numbers given as strings;
  * HASH-SEED AND IDENTITY DEPENDENCE: a result that is right under one PYTHONHASHSEED and wrong under another, or that depends on object
    addresses / creation order (sets of nodes, dict of sets), arranged so that the default seed and natural small inputs come out right;
  * TWO COOPERATING SITES in different files: each edit is a defensible clean-up on its own and harmless alone; together they break the
    property for a nameable class of inputs.""",
    9: """ANGLES for this round: any realistic mechanism not in the list above is welcome (an optimisation, a clean-up, a new convenience
feature with a slip, a changed default, a cache, two cooperating sites). What matters this time is WHICH CLAUSE breaks - see the preferred
clauses below; earlier changes have rarely or never broken them. Stay inside the stated domain.""",
    10: """ANGLES for this round: any realistic mechanism that is not in the list above. The list is long by now - read it as a description of
what a checker has already learned to look for, and look ELSEWHERE: a part of the code, an input feature, a combination of options or a
sequence of calls that none of the listed changes touches. Stay inside the stated domain.""",
    11: """ANGLES for this round (a short round: ONE change, delivered within about eight minutes of work): any realistic mechanism that is
not in the list above - preferably state carried between two calls in one process, or two cooperating sites that each look fine alone.
Keep your messages and tool calls short. Stay inside the stated domain.""",
}

PREFERRED = {
    "C01": "the exhaustive enumerator yields each valid reconciliation exactly ONCE (no duplicates, nothing invalid); neither solver FAILS on a valid input (no exception, no empty answer)",
    "C02": "a prescribed root order is respected; the answer is EMPTY exactly when no root order is compatible; the base solver keeps the LCA mapping",
    "C03": "the BASE solver (LCA mapping fixed) returns a minimum over labellings; returned labellings are within the stated solution class",
    "C04": "every object node is mapped (complete mapping), leaves sit in their own species, no event is invalid, costs are finite",
    "C05": "ANY returns exactly ONE solution; ALL has no duplicates; repeated calls with alternating policies",
    "C06": "the classification of each node (speciation / duplication / transfer) and the speciation price; the evaluator rejects invalid mappings",
    "C07": "uniqueness of the minimum when losses cost something; validity of the LCA reconciliation (no transfer, leaves in place)",
    "C08": "the enumerator produces each refinement exactly once and only binary trees; colours and names of ORIGINAL nodes survive",
    "C09": "bijective renaming of nodes or families; adding an empty outgroup; raising ONE unit cost never lowers the minimum",
    "C10": "the single-family equalities (ext_spfs = superdtl = thl, base_spfs = base_uspfs = lca)",
    "C11": "the ordered flag, the child order of both trees, the events and the cost of a re-read solution",
    "C12": "`--solutions all` is a superset of `--solutions any`; the exit status; O#/S# numbering in PRE-ORDER with existing names untouched",
    "C13": "exactly one loss marker per counted loss IN THE RIGHT SPECIES; exactly one transfer arrow per transfer ending at the transferred child",
    "C14": "trunks do not overlap sibling boxes; sibling boxes do not overlap each other; every referenced anchor exists",
    "C15": "balanced braces and terminated statements; every colour defined BEFORE the picture; wrapped labels keep every word and use no more lines than greedy wrapping",
    "C16": "len(), iteration, info() and is_infinite() of an entry agree with its tags; a table cell never written reads as infinitely bad with no tags",
    "C17": "is_strict_ancestor_of, is_comparable, level and distance (rather than the lca query itself)",
    "C18": "subseq_complete; the run count for contained children when ends are NOT counted",
    "C19": "the single-ordering routine (toposort) rather than the all-orderings one; the caller's graph is left untouched",
    "C20": "DisjointSet.find / len / to_list after unions; tree_to_triples (the decomposition itself)",
}


def main():
    wave, outdir = int(sys.argv[1]), sys.argv[2]
    N = 1 if wave == 11 else 2
    os.makedirs(outdir, exist_ok=True)
    props = [json.loads(l) for l in open(os.path.join(VERIF, "properties.jsonl"))]
    for p in props:
        pid = p["id"]
        done = []
        for mp in sorted(glob.glob(os.path.join(VERIF, "seeded", pid + "-*", "meta.json"))):
            m = json.load(open(mp))
            done.append("  - " + m.get("summary", "").strip())
        wt = f"/tmp/seed/w{wave}-{pid}"
        out = f"/tmp/seed/out{wave}/{pid}"
        text = f"""You are helping to test a verification effort for the Python package superrec2 (UdeM-LBIT/superrec2: dynamic-programming
algorithms for phylogenetic reconciliation and super-reconciliation, plus TikZ diagram rendering). Your job is to play the
role of a developer who introduces a subtle regression.

YOUR WORKSPACE: the git worktree {wt} (a checkout of the repository). Work ONLY there and in {out}.
Do NOT read, list or touch /verif or /repo or any other directory under /tmp/seed; do not look for existing verification code
anywhere on this machine. Everything you need is the repository source in your worktree ({wt}/src/superrec2, {wt}/tests, {wt}/README.md).

Python: /venv/bin/python (3.12, all dependencies installed). ALWAYS run with PYTHONPATH={wt}/src so that your worktree's
code is imported (the venv has an editable install pointing elsewhere; PYTHONPATH shadows it). Set TQDM_DISABLE=1 to silence progress bars.
There is no network. The existing test suite is run with:
    cd {wt} && PYTHONPATH={wt}/src /venv/bin/python -m pytest -q -p no:cacheprovider --timeout=900
On the unchanged tree exactly 55 tests pass and 2 fail (tests/render/test_draw.py::test_fixtures and tests/utils/test_tex.py::test_measure
always fail here because no TeX engine is installed; ignore those two).

THE PROPERTY (a semantic property of superrec2 that users rely on):

  id: {pid}
  title: {p['title']}
  statement: {p['statement']}
  domain it is quantified over: {p['quantifier']['text']}


ALREADY DONE BY OTHERS (do NOT repeat these mechanisms or close variants of them):
{chr(10).join(done)}

{ANGLES[wave]}
{("PREFERRED CLAUSES for this property: " + PREFERRED[pid]) if wave == 9 else ""}

If after a serious look none of these angles can break THIS property inside its stated domain, fall back to any other mechanism not in the list above.

TASK: produce {N} DIFFERENT, INDEPENDENT change(s) to the package source (under src/superrec2 only; do not edit tests), each of which
  (a) BREAKS the property above (for some input / configuration / operation history inside the stated domain),
  (b) still imports/compiles, and the existing test suite still gives exactly the same result as before (the same 55 tests pass),
  (c) is REALISTIC: looks like something a maintainer could plausibly commit (a refactoring, an "optimisation", a boundary slip, a cache,
      a changed default, two sites that each look fine alone) - not sabotage like `if x == 42: return wrong`,
  (d) needs something SPECIFIC to manifest - a particular input shape, an unusual cost vector, a tie, a multi-step sequence of operations,
      a particular nesting, state carried between two calls, or two cooperating sites - NOT something ordinary use (e.g. the README example
      with default options) would expose at once. Prefer changes where most inputs still give correct results.
  If more than one: the changes should be in different functions/mechanisms and, if the property has several clauses, break different clauses.

For EACH change k (k = 1..{N}) deliver, in {out}/k/ :
  - patch.diff : output of `git -C {wt} diff` for that change alone (relative to the unchanged HEAD; must apply with `git apply` on a clean checkout);
  - demo.py    : a small stand-alone program, run as `PYTHONPATH=<tree>/src /venv/bin/python demo.py`, that exits 0 and prints PASS on the unchanged
                 tree and exits 1 and prints FAIL (with what was observed vs expected) on the changed tree. It must decide correctness by an
                 independent argument (a hand-computed expected value, a brute-force recount, or a relation stated in the property), not by
                 comparing to a recorded output of the old code. It must not import anything outside the package and the standard library
                 (ete3 etc. that the package itself uses are fine). It should finish within a minute.
  - notes.md   : which clause of the property it breaks, the file/function changed, what exactly is needed for it to manifest, and why the
                 existing tests do not notice.
Procedure per change: edit, run the test suite (must still be 55 passed / same 2 failed), run the demo on the changed tree (must FAIL), save the diff,
then `git -C {wt} checkout -- .` and run the demo again on the clean tree (must PASS). Leave the worktree clean at the end (no uncommitted edits).
Do not commit anything.

Finish with a short report: for each change one paragraph (what, where, what it needs to manifest), and confirm the suite/demo results you observed.
"""
        open(os.path.join(outdir, f"prompt{wave}-{pid}.txt"), "w").write(text)
    print("wrote", len(props), "prompts to", outdir)


if __name__ == "__main__":
    main()
