"""Validate MANIFEST.json and any evidence files against the schemas (run with python3-vt)."""
import json, os, sys, glob
import jsonschema
HERE = os.path.dirname(os.path.dirname(os.path.abspath(__file__)))
def load(p):
    with open(p) as fh:
        return json.load(fh)
def schema(name):
    for d in ("/root/.vp", os.path.join(HERE, "schemas")):
        p = os.path.join(d, name)
        if os.path.exists(p):
            return load(p)
    raise SystemExit("schema not found: " + name)
bad = 0
try:
    jsonschema.validate(load(os.path.join(HERE, "MANIFEST.json")), schema("MANIFEST.schema.json"))
    print("MANIFEST.json valid")
except jsonschema.ValidationError as e:
    print("MANIFEST.json INVALID:", e.message); bad += 1
es = schema("EVIDENCE.schema.json")
for p in sorted(glob.glob(os.path.join(HERE, "evidence", "C*.json"))):
    try:
        jsonschema.validate(load(p), es)
    except jsonschema.ValidationError as e:
        print(os.path.basename(p), "INVALID:", e.message); bad += 1
ps = schema("PROPERTIES.schema.json")
for line in open(os.path.join(HERE, "properties.jsonl")):
    if line.strip():
        jsonschema.validate(json.loads(line), ps)
man = load(os.path.join(HERE, "MANIFEST.json"))
ids = [json.loads(l)["id"] for l in open(os.path.join(HERE, "properties.jsonl")) if l.strip()]
claimed = [c["property_id"] for c in man["checks"]]
na = [c["property_id"] for c in man.get("not_applicable", [])]
if sorted(claimed + na) != sorted(ids):
    print("MANIFEST does not partition the property list", sorted(set(ids) - set(claimed) - set(na))); bad += 1
sys.exit(1 if bad else 0)
